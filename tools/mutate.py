#!/venv/bin/python
"""Apply a named single-site mutant (tools/mutants.json) or a patch file to a scratch worktree
of /repo, run a check against that worktree (VERIF_REPO), remove the worktree.
usage: tools/mutate.py <mutant-name|path/to/patch.diff> <ID> [check args...]"""
import json, os, subprocess, sys, tempfile, shutil

M = json.load(open(os.path.join(os.path.dirname(__file__), "mutants.json")))
name, pid, *rest = sys.argv[1:]
wt = tempfile.mkdtemp(prefix="mut_wt_", dir="/tmp")
os.rmdir(wt)
subprocess.run(["git", "-C", "/repo", "worktree", "add", "-q", "--detach", wt, "HEAD"], check=True)
try:
    if os.path.exists(name):
        subprocess.run(["git", "-C", wt, "apply", os.path.abspath(name)], check=True)
        label = os.path.basename(os.path.dirname(os.path.abspath(name))) or name
    else:
        m = M[name]
        path = os.path.join(wt, m["file"])
        src = open(path).read()
        assert src.count(m["old"]) == 1, f"{name}: pattern occurs {src.count(m['old'])}x"
        open(path, "w").write(src.replace(m["old"], m["new"]))
        label = name
    rdir = tempfile.mkdtemp(prefix="mut_replays_", dir="/tmp")
    env = dict(os.environ, VERIF_REPO=wt, VERIF_REPLAY_DIR=rdir, VERIF_SHRINK_S=os.environ.get("VERIF_SHRINK_S", "8"))
    r = subprocess.run(["./check", pid, "--no-evidence", *rest], cwd="/verif", capture_output=True, text=True, env=env)
    lines = [l for l in r.stdout.splitlines() if any(k in l for k in ("VIOLATION", "bucket=", "HARNESS", "tier="))]
    print(f"== {label} on {pid}: exit {r.returncode}")
    print("\n".join(lines[:5]))
    shutil.rmtree(rdir, ignore_errors=True)
finally:
    subprocess.run(["git", "-C", "/repo", "worktree", "remove", "--force", wt])
