#!/venv/bin/python
"""Apply a named single-site mutant to /repo, run a check, revert.  Mutants: tools/mutants.json
usage: tools/mutate.py <mutant-name> <ID> [check args...]"""
import json, subprocess, sys, os
M = json.load(open(os.path.join(os.path.dirname(__file__), "mutants.json")))
name, pid, *rest = sys.argv[1:]
m = M[name]
path = os.path.join("/repo", m["file"])
if subprocess.run(["git", "-C", "/repo", "diff", "--quiet"]).returncode != 0:
    sys.exit("repo dirty")
src = open(path).read()
assert src.count(m["old"]) == 1, f"{name}: pattern occurs {src.count(m['old'])}x"
open(path, "w").write(src.replace(m["old"], m["new"]))
try:
    r = subprocess.run(["./check", pid, "--no-evidence", *rest], cwd="/verif", capture_output=True, text=True)
    lines = [l for l in r.stdout.splitlines() if any(k in l for k in ("VIOLATION", "bucket=", "HARNESS", "tier="))]
    print(f"== {name} on {pid}: exit {r.returncode}")
    print("\n".join(lines[:6]))
finally:
    subprocess.run(["git", "-C", "/repo", "checkout", "--", "."])
    for f in os.listdir("/verif/replays"):
        if f.startswith(pid + "_"):
            os.remove(os.path.join("/verif/replays", f))
