#!/bin/bash
# usage: tools/seed_sweep.sh <out.tsv> <seed> [<seed> ...]    runs each seeded change against the check of its own property
# (quick tier, scratch worktree via tools/mutate.py) and appends "<seed>\t<check>\t<exit>\t<first bucket line>" to <out.tsv>
OUT="$1"; shift
for s in "$@"; do
  pid=$(/venv/bin/python -c "import json,sys; print(json.load(open('/verif/seeded/$s/meta.json'))['property'])")
  log=$(mktemp)
  timeout 3000 nice -n 5 /verif/tools/mutate.py /verif/seeded/$s/patch.diff $pid > $log 2>&1
  rc=$(grep -o "exit [0-9]*" $log | head -1 | cut -d' ' -f2)
  first=$(grep "bucket=" $log | head -1 | cut -c1-220)
  printf "%s\t%s\t%s\t%s\n" "$s" "$pid" "${rc:-timeout}" "$first" >> "$OUT"
  rm -f $log
done
echo SWEEP-DONE >> "$OUT"
