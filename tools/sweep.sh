#!/bin/bash
# usage: tools/sweep.sh "<seeds>" "<ids>"   -> prints one line per (seed, id): exit code and summary
./setup.sh >/dev/null 2>&1
for s in $1; do for p in $2; do
  out=$(VERIF_SEED=$s ./check $p --no-evidence 2>&1); rc=$?
  echo "seed=$s $p rc=$rc $(echo "$out" | grep 'tier=' | cut -c1-120)"
  if [ $rc -ne 0 ]; then echo "$out" | grep 'bucket=\|HARNESS\|shard' | cut -c1-400 | head -6; fi
done; done
