#!/bin/bash
# usage: tools/try_mutant.sh <patch-file> <ID> [extra check args]   (applies to /repo, runs check, reverts)
P="$1"; ID="$2"; shift 2
cd /repo || exit 2
if ! git diff --quiet; then echo "repo dirty; abort"; exit 2; fi
git apply "$P" || { echo "patch does not apply"; exit 2; }
cd /verif && ./check "$ID" --no-evidence "$@" 2>&1 | grep -E "VIOLATION|bucket=|HARNESS|tier=" | head -8
git -C /repo checkout -- .
rm -f /verif/replays/${ID}_*.json
