#!/bin/bash
# usage: tools/mutation_batch.sh <logfile> "<mutant> <ID> [args]" ...   (sequential; each in its own worktree)
LOG="$1"; shift
for spec in "$@"; do
  timeout 1500 /verif/tools/mutate.py $spec >> "$LOG" 2>&1 || echo "== $spec: TIMEOUT/ERROR rc=$?" >> "$LOG"
done
echo BATCH-DONE >> "$LOG"
