#!/venv/bin/python
"""Write tools/mutants/SEEDS.md from tools/mutants/sweeps/*.tsv (later files/lines win) and seeded/*/meta.json."""
import glob, json, os
root = os.path.dirname(os.path.dirname(os.path.abspath(__file__)))
rows = {}
for f in sorted(glob.glob(os.path.join(root, "tools/mutants/sweeps/*.tsv")), key=lambda f_: ("manual" in os.path.basename(f_), os.path.getmtime(f_))):
    for ln in open(f):
        p = ln.rstrip("\n").split("\t")
        if len(p) >= 3 and p[0] != "SWEEP-DONE":
            rows[(p[0], p[1])] = (p[2], (p[3] if len(p) > 3 else "").strip())
lines = ["# Independently written breaking changes (seeded/) against the checks", "",
         "exit 1 = VIOLATION reported; 0 = missed; `0->1` = missed at first, caught after the check was strengthened (see DESIGN.md 9.8).",
         "Every change passes the repository's 335 tests and was confirmed with tools/confirm_seed.sh (demo passes without / fails with it).", "",
         "| change | property | what it does | exit | first finding of the check |", "|---|---|---|---|---|"]
for d in sorted(os.listdir(os.path.join(root, "seeded"))):
    m = json.load(open(os.path.join(root, "seeded", d, "meta.json")))
    own = m["property"]
    hits = {k: v for k, v in rows.items() if k[0] == d}
    summ = m["summary"].replace("|", "/").replace("\n", " ")
    summ = summ[:230] + ("..." if len(summ) > 230 else "")
    if not hits:
        lines.append(f"| {d} | {own} | {summ} | not run | |")
    for (s, chk), (rc, first) in sorted(hits.items()):
        lines.append(f"| {d} | {own}{'' if chk == own else ' (run against ' + chk + ')'} | {summ} | {rc} | {first.replace('|', '/')[:200]} |")
open(os.path.join(root, "tools/mutants/SEEDS.md"), "w").write("\n".join(lines) + "\n")
print(len(rows), "results,", len(os.listdir(os.path.join(root, "seeded"))), "changes")
