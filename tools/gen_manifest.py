"""Regenerate MANIFEST.json from the property modules that exist (python tools/gen_manifest.py)."""
import importlib, json, os, sys
sys.path.insert(0, os.path.dirname(os.path.dirname(os.path.abspath(__file__))))
os.environ.setdefault("JAX_ENABLE_X64", "1")
props = [json.loads(l) for l in open("properties.jsonl")]
checks, na = [], []
for p in props:
    pid = p["id"]
    path = f"vlib/props/{pid.lower()}.py"
    if not os.path.exists(path):
        na.append({"property_id": pid, "reason": "check not built yet in this session (planned; see DESIGN.md section 5)"})
        continue
    src = open(path).read()
    mod = {}
    # read metadata without importing jax
    import ast
    tree = ast.parse(src)
    for node in tree.body:
        if isinstance(node, ast.Assign) and len(node.targets) == 1 and isinstance(node.targets[0], ast.Name):
            name = node.targets[0].id
            if name in ("LEVEL_TEXT", "LEVEL_NOTE", "TECHNIQUE", "LEVEL", "DESIGN_REF"):
                mod[name] = ast.literal_eval(node.value)
    checks.append({
        "property_id": pid,
        "quick_cmd": f"./check {pid} --tier quick",
        "thorough_cmd": f"./check {pid} --tier thorough",
        "evidence_file": f"evidence/{pid}.json",
        "replay_cmd_template": f"./check {pid} --replay {{path}}",
        "engine": "pbt-runner",
        "level_claimed": {
            "category": mod.get("LEVEL", "exploration"),
            "text": mod.get("LEVEL_TEXT", "generated-input search against an explicit oracle"),
            "design_ref": mod.get("DESIGN_REF", f"DESIGN.md section 5, {pid}"),
        },
        "level_note": mod.get("LEVEL_NOTE", ""),
        "technique": mod.get("TECHNIQUE", "property-based testing (Hypothesis) against a reference oracle"),
    })
manifest = {
    "version": 1,
    "setup_cmd": "./setup.sh",
    "hooks": {
        "guard": "PROBDIFFEQ_VERIF",
        "enable": "checks export PROBDIFFEQ_VERIF=1; no source hooks exist: all observation goes through public extension points (user-supplied Solver/ErrorEstimator/Control objects, jax.debug callbacks, harness-side patching of probdiffeq.backend.random)",
        "baseline_off_cmd": "cd /repo && /venv/bin/python -m pytest -ra -q -p no:cacheprovider --timeout=900 --continue-on-collection-errors -n 12 tests",
        "source_commits": [],
        "add_only": True,
    },
    "engines": [{
        "name": "pbt-runner",
        "path": "vlib/runner.py",
        "serves_properties": [c["property_id"] for c in checks],
        "kind_free_text": "Hypothesis-driven generation sharded over 16 processes (collect-then-shrink), NumPy/mpmath/Fraction reference oracles, JSON replay files",
    }],
    "checks": checks,
    "not_applicable": na,
    "notes": "VERIF_SEED selects the Hypothesis seed (per shard: sha256(seed, shard)); exit 2 = harness error (never a VIOLATION); known_findings.json lists genuine defects (open = recorded, fixed = repaired by a fix: commit in /repo).",
}
json.dump(manifest, open("MANIFEST.json", "w"), indent=1)
print("checks:", [c["property_id"] for c in checks], "na:", len(na))
