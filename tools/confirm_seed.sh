#!/bin/bash
# usage: tools/confirm_seed.sh seeded/<ID_x>    Confirms a seeded change in a scratch worktree:
#  demo passes without it, fails with it, the repository's test suite still passes with it.
D="$(cd "$1" && pwd)"; NAME=$(basename "$D")
WT=/tmp/confirm_$NAME
git -C /repo worktree add -q --detach $WT HEAD || exit 2
cd $WT
PYTHONPATH=$WT /venv/bin/python $D/demo.py >/tmp/confirm_$NAME.without.log 2>&1; RC_WITHOUT=$?
git apply $D/patch.diff || { echo "patch does not apply"; git -C /repo worktree remove --force $WT; exit 2; }
PYTHONPATH=$WT /venv/bin/python $D/demo.py >/tmp/confirm_$NAME.with.log 2>&1; RC_WITH=$?
TESTS=$(PYTHONPATH=$WT /venv/bin/python -m pytest -q -p no:cacheprovider -n ${CONFIRM_JOBS:-8} tests 2>&1 | tail -1)
cd /verif
git -C /repo worktree remove --force $WT
/venv/bin/python - "$D" "$RC_WITHOUT" "$RC_WITH" "$TESTS" <<'PY'
import json, sys, subprocess
d, rc0, rc1, tests = sys.argv[1:5]
p = d + "/meta.json"
m = json.load(open(p))
head = subprocess.run(["git","-C","/repo","log","--format=%h","-1"],capture_output=True,text=True).stdout.strip()
m["confirmed"] = {"repo_head": head, "demo_exit_without_change": int(rc0), "demo_exit_with_change": int(rc1), "test_suite_with_change": tests.strip(),
                  "ran": "tools/confirm_seed.sh (scratch worktree of /repo HEAD; demo.py before/after git apply patch.diff; pytest -q tests)"}
json.dump(m, open(p, "w"), indent=1)
print(d.split("/")[-1], "without:", rc0, "with:", rc1, "|", tests.strip())
PY
rm -f /tmp/confirm_$NAME.*.log
