#!/bin/bash
# Offline setup: install harness-side dependencies next to the repo's own packages.
HERE="$(cd "$(dirname "$0")" && pwd)"
set -e
mkdir -p "$HERE/.deps"
/venv/bin/python -c "import hypothesis" 2>/dev/null || \
  /venv/bin/pip install --no-index --find-links /opt/veriftools/wheels --target "$HERE/.deps" hypothesis
PYTHONPATH="$HERE/.deps" /venv/bin/python -c "import mpmath" 2>/dev/null || \
  /venv/bin/pip install --no-index --find-links /opt/veriftools/wheels --target "$HERE/.deps" mpmath
PYTHONPATH="$HERE/.deps" /venv/bin/python -c "import jsonschema" 2>/dev/null || \
  /venv/bin/pip install --no-index --find-links /opt/veriftools/wheels --target "$HERE/.deps" jsonschema || true
PYTHONPATH="$HERE/.deps" /venv/bin/python -c "import atheris" 2>/dev/null || \
  /venv/bin/pip install --no-index --find-links /opt/veriftools/wheels --target "$HERE/.deps" atheris || true
PYTHONPATH="$HERE/.deps:/repo" /venv/bin/python -c "import probdiffeq, hypothesis, mpmath; print('setup ok', hypothesis.__version__, mpmath.__version__)"
