"""Hypothesis strategies shared by the property modules.

Everything returns plain JSON-serialisable Python values (lists, floats, ints, strs).
Numeric entries are small rationals k/4 (shrink towards 0) unless a continuous range
is part of the property's quantifier, in which case exponents are drawn.
"""

from hypothesis import strategies as st

FACTS = ["dense", "isotropic", "blockdiag"]


def quarter(lo=-8, hi=8):
    return st.integers(lo, hi).map(lambda k: k / 4.0)


def nonzero_quarter(lo=-8, hi=8):
    return st.integers(lo, hi).filter(lambda k: k != 0).map(lambda k: k / 4.0)


def vec(n, elem=None):
    elem = quarter() if elem is None else elem
    return st.lists(elem, min_size=n, max_size=n)


def mat(r, c, elem=None):
    return st.lists(vec(c, elem), min_size=r, max_size=r)


def tensor3(a, b, c, elem=None):
    return st.lists(mat(b, c, elem), min_size=a, max_size=a)


def log10_uniform(lo, hi):
    """A float 10**e with e uniform in [lo, hi]; shrinks towards 10**0 when allowed."""
    return st.floats(lo, hi, allow_nan=False, allow_infinity=False).map(lambda e: 10.0**e)


def exponent(lo, hi):
    return st.floats(lo, hi, allow_nan=False, allow_infinity=False)


def increments(n, lo=1e-3, hi=1.0):
    """n positive increments (for strictly increasing grids by construction)."""
    import math

    return st.lists(
        st.floats(math.log10(lo), math.log10(hi)).map(lambda e: 10.0**e),
        min_size=n,
        max_size=n,
    )


def pool_choice(pool):
    """Pick one structure (dict) from a pre-computed pool."""
    return st.sampled_from(pool)
