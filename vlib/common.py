"""Shared helpers: case results, exceptions, JSON, comparison metrics."""

import hashlib
import json
import os
import traceback

import numpy as np

VERIF = os.path.dirname(os.path.dirname(os.path.abspath(__file__)))


class Inconclusive(Exception):
    """The case cannot be decided (oracle ill-conditioned, budget hit, precondition)."""


class HarnessError(Exception):
    """Raised by harness-side code that runs *inside* a library call (patched random sources, scripted solvers): a limitation
    of the harness must surface as a harness error (exit 2), never as a library exception / violation."""


class LibraryError(Exception):
    """The library raised on an input the harness considers valid."""

    def __init__(self, exc, where):
        super().__init__(f"{type(exc).__name__}: {exc}")
        self.exc = exc
        self.where = where


class lib_call:
    """Context manager: exceptions raised inside are attributed to the library."""

    def __init__(self, what=""):
        self.what = what

    def __enter__(self):
        return self

    def __exit__(self, et, ev, tb):
        if et is None or issubclass(et, (Inconclusive, HarnessError, KeyboardInterrupt, MemoryError)):
            return False
        frames = traceback.extract_tb(tb)
        where = "?"
        for fr in reversed(frames):
            if "/probdiffeq/" in fr.filename:
                where = f"{os.path.basename(fr.filename)}:{fr.name}"
                break
        raise LibraryError(ev, f"{self.what}@{where}") from ev


class Result:
    """Outcome of one case."""

    def __init__(self):
        self.violations = []  # list of dict(bucket=..., msg=..., known=None|finding-id)
        self.labels = []
        self.nontrivial = False
        self.inconclusive = None  # reason or None
        self.metrics = {}

    def violate(self, bucket, msg, known=None):
        self.violations.append({"bucket": bucket, "msg": msg, "known": known})

    def label(self, *ls):
        self.labels.extend(ls)

    def metric(self, name, value):
        v = float(value)
        if name not in self.metrics or v > self.metrics[name]:
            self.metrics[name] = v


def jdump(obj):
    return json.dumps(obj, sort_keys=True, default=_json_default)


def _json_default(o):
    if isinstance(o, (np.floating,)):
        return float(o)
    if isinstance(o, (np.integer,)):
        return int(o)
    if isinstance(o, np.ndarray):
        return o.tolist()
    if isinstance(o, (np.bool_,)):
        return bool(o)
    return repr(o)


def case_hash(case):
    return hashlib.sha1(jdump(case).encode()).hexdigest()[:16]


def derive_seed(*parts):
    h = hashlib.sha256("/".join(str(p) for p in parts).encode()).hexdigest()
    return int(h[:12], 16)


# ---------------------------------------------------------------- comparison metrics


def mean_err(m, m_ref, std_ref=None):
    """Max abs error of a mean vector relative to a scale |m_ref|_inf + max std."""
    m, m_ref = np.asarray(m, float), np.asarray(m_ref, float)
    scale = np.max(np.abs(m_ref)) if m_ref.size else 0.0
    if std_ref is not None and np.size(std_ref):
        scale = scale + float(np.max(std_ref))
    scale = max(scale, 1e-300)
    if not np.all(np.isfinite(m)):
        return np.inf
    return float(np.max(np.abs(m - m_ref)) / scale)


def cov_err(P, P_ref, floor=0.0):
    """Correlation-normalised max abs covariance error."""
    P, P_ref = np.asarray(P, float), np.asarray(P_ref, float)
    if not np.all(np.isfinite(P)):
        return np.inf
    d = np.sqrt(np.clip(np.diag(P_ref), 0.0, None))
    scale = np.outer(d, d)
    big = np.max(scale) if scale.size else 0.0
    scale = np.maximum(scale, floor * big + 1e-300)
    return float(np.max(np.abs(P - P_ref) / scale))


def blockwise_mean_err(m, m_ref, P_ref, n, d):
    """Per-coefficient-block relative mean error (coefficient-major layout)."""
    m = np.asarray(m, float).reshape(n, d)
    m_ref = np.asarray(m_ref, float).reshape(n, d)
    sd = np.sqrt(np.clip(np.diag(P_ref), 0, None)).reshape(n, d)
    worst = 0.0
    for i in range(n):
        scale = np.max(np.abs(m_ref[i])) + np.max(sd[i])
        scale = max(scale, 1e-300)
        if not np.all(np.isfinite(m[i])):
            return np.inf
        worst = max(worst, float(np.max(np.abs(m[i] - m_ref[i])) / scale))
    return worst


def rel_err(a, b, floor=0.0):
    a, b = np.asarray(a, float), np.asarray(b, float)
    if a.shape != b.shape:
        return np.inf
    if not np.all(np.isfinite(a)):
        return np.inf
    scale = max(float(np.max(np.abs(b))) if b.size else 0.0, floor, 1e-300)
    return float(np.max(np.abs(a - b)) / scale) if a.size else 0.0


# ---------------------------------------------------------------- no-progress watchdog
# A property module whose harness observes every loop event (C06) may report a *stall*: no
# event at all for STALL_S seconds, although every legitimate run produces an event within
# milliseconds.  The worker installs the hook; it records a violation for the current case,
# writes the shard statistics and exits the process (an XLA while-loop cannot be interrupted).
STALL_HOOK = [None]
STALL_S = float(os.environ.get("VERIF_STALL_S", "240"))
