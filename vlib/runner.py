"""Parent process of a check: shards the search, merges statistics, writes evidence."""

import argparse
import json
import os
import subprocess
import sys
import tempfile
import time

from vlib import common

VERIF = common.VERIF


def load_known():
    path = os.path.join(VERIF, "known_findings.json")
    if not os.path.exists(path):
        return []
    with open(path) as f:
        return json.load(f).get("findings", [])


def main():
    ap = argparse.ArgumentParser()
    ap.add_argument("pid")
    ap.add_argument("--tier", default=os.environ.get("VERIF_TIER", "quick"))
    ap.add_argument("--replay", default=None)
    ap.add_argument("--shards", type=int, default=None)
    ap.add_argument("--examples", type=int, default=None, help="total examples")
    ap.add_argument("--no-evidence", action="store_true")
    args = ap.parse_args()
    pid = args.pid.upper()
    tier = args.tier if args.tier in ("quick", "thorough") else "quick"
    try:
        seed = int(os.environ.get("VERIF_SEED", "1"))
    except ValueError:
        seed = 1

    if args.replay:
        sys.exit(replay(pid, args.replay))

    from vlib import worker

    prop = worker.load_prop(pid)
    total = args.examples if args.examples is not None else prop.BUDGET[tier]
    width = args.shards or int(os.environ.get("VERIF_SHARDS", os.cpu_count() or 4))
    # thorough tier: several rounds of fresh worker processes (bounds the number of XLA executables
    # a single process accumulates, and every (round, shard) draws its own structure pool)
    rounds = int(os.environ.get("VERIF_ROUNDS", getattr(prop, "ROUNDS", {}).get(tier, 1 if tier == "quick" else 8)))
    nshards = width * rounds
    nshards = max(1, min(nshards, total)) if total > 0 else 1
    per = [total // nshards + (1 if i < total % nshards else 0) for i in range(nshards)]

    t0 = time.time()
    tmp = tempfile.mkdtemp(prefix=f"verif_{pid}_")
    deadline_each = float(os.environ.get("VERIF_SHARD_TIMEOUT", 900 if tier == "quick" else 3 * 3600))
    pending = list(range(nshards))
    # coverage-guided campaigns (atheris) over the same generator and oracle run as additional jobs and are merged like shards
    fuzz_procs, fuzz_runs = getattr(prop, "FUZZ", {}).get(tier, (0, 0))
    if args.examples is not None or os.environ.get("VERIF_NO_FUZZ"):
        fuzz_procs = 0
    fuzz_jobs = {nshards + k: k for k in range(fuzz_procs)}
    pending = list(fuzz_jobs) + pending
    running = {}
    finished = []
    while pending or running:
        while pending and len(running) < width + len(fuzz_jobs):
            i = pending.pop(0)
            out = os.path.join(tmp, f"shard{i}.json")
            if i in fuzz_jobs:
                cmd = [sys.executable, "-m", "vlib.fuzz", pid, tier, str(seed * 1000 + fuzz_jobs[i]), str(fuzz_runs), out]
            else:
                cmd = [sys.executable, "-m", "vlib.worker", pid, tier, str(seed), str(i)]
                cmd += [str(nshards), str(per[i]), out]
            log = open(os.path.join(tmp, f"shard{i}.log"), "w")
            env = dict(os.environ)
            env.update(getattr(prop, "shard_env", lambda i, n: {})(i, nshards))
            running[i] = (subprocess.Popen(cmd, stdout=log, stderr=log, cwd=VERIF, env=env), out, log, time.time())
        time.sleep(0.2)
        for i in list(running):
            p, out, log, started = running[i]
            rc = p.poll()
            if rc is None and time.time() - started > deadline_each:
                p.kill()
                rc = p.wait()
                # a time limit is "inconclusive", never a violation: keep what the shard had finished
                try:
                    with open(out if i in fuzz_jobs else out + ".partial") as f:
                        st = json.load(f)
                    st["timed_out"] = True
                except Exception:  # noqa: BLE001
                    st = {"harness_error": "shard timed out before its first partial result (inconclusive, not a violation)"}
                with open(out, "w") as f:
                    json.dump(st, f)
                rc = 0 if st.get("timed_out") else rc
            if rc is not None:
                log.close()
                # libFuzzer ends the process itself (exit code 0 after -runs); its statistics file is complete at any time
                finished.append((i, 0 if (i in fuzz_jobs and rc in (0, 1) and os.path.exists(out)) else rc, out))
                del running[i]
    finished.sort()

    merged = {
        "evaluations": 0,
        "nontrivial": set(),
        "labels": {},
        "inconclusive": {},
        "samples": [],
        "violations": {},
        "metrics": {},
    }
    harness_errors = []
    timed_out = []
    for i, rc, out in finished:
        try:
            with open(out) as f:
                st = json.load(f)
        except Exception:  # noqa: BLE001
            st = {"harness_error": f"shard {i} produced no output (rc={rc})"}
        if st.get("harness_error") or rc != 0:
            with open(os.path.join(tmp, f"shard{i}.log")) as f:
                tail = f.read()[-3000:]
            tb = str(st.get("harness_error") or tail)
            keep = [ln for ln in tb.splitlines() if ln.startswith("  File \"/verif") or ln.startswith("  File \"/repo") or (ln and not ln.startswith(" "))]
            harness_errors.append(f"shard {i} rc={rc}:\n" + "\n".join(keep[-14:]))
            continue
        if st.get("timed_out"):
            timed_out.append(i)
            if len(timed_out) == 1:
                print(f"  shard {i} was working on (or had just finished) this case when it was stopped: {common.jdump(st.get('last_case'))[:600]}")
        merged["evaluations"] += st["evaluations"]
        merged["nontrivial"].update(st["nontrivial_hashes"])
        for k, v in st["labels"].items():
            merged["labels"][k] = merged["labels"].get(k, 0) + v
        for k, v in st["inconclusive"].items():
            merged["inconclusive"][k] = merged["inconclusive"].get(k, 0) + v
        for k, v in st["metrics"].items():
            if k not in merged["metrics"] or v > merged["metrics"][k]:
                merged["metrics"][k] = v
        if len(merged["samples"]) < 4:
            merged["samples"].extend(st["samples"][: 4 - len(merged["samples"])])
        for b, v in st["violations"].items():
            cur = merged["violations"].get(b)
            if cur is None:
                merged["violations"][b] = v
            else:
                cur["count"] += v["count"]
                if len(common.jdump(v["case"])) < len(common.jdump(cur["case"])):
                    cur["case"], cur["msg"] = v["case"], v["msg"]

    for f in os.listdir(tmp):
        os.remove(os.path.join(tmp, f))
    os.rmdir(tmp)

    if harness_errors:
        print(f"HARNESS-ERROR property={pid}")
        for h in harness_errors[:3]:
            print(h)
        sys.exit(2)

    # Classify violations against the committed known-findings list
    known = [k for k in load_known() if k.get("property") == pid]
    open_ids = {k["id"] for k in known if k.get("status") == "open"}
    new_violations, known_hits = [], {}
    for bucket, v in sorted(merged["violations"].items()):
        if v.get("known") and v["known"] in open_ids:
            known_hits[v["known"]] = known_hits.get(v["known"], 0) + v["count"]
        else:
            new_violations.append((bucket, v))

    replay_dir = os.environ.get("VERIF_REPLAY_DIR") or os.path.join(VERIF, "replays")
    os.makedirs(replay_dir, exist_ok=True)
    lines = []
    for bucket, v in new_violations:
        name = f"{pid}_{common.case_hash({'b': bucket})}.json"
        rel = os.path.join("replays", name) if not os.environ.get("VERIF_REPLAY_DIR") else os.path.join(replay_dir, name)
        with open(os.path.join(replay_dir, name), "w") as f:
            json.dump({"property": pid, "bucket": bucket, "msg": v["msg"], "case": v["case"]}, f, indent=1, default=common._json_default)
        lines.append(f"VIOLATION property={pid} replay={rel}")
        print(f"  bucket={bucket} count={v['count']}: {v['msg'][:400]}")
    for k in known:
        if k.get("status") == "open":
            n = known_hits.get(k["id"], 0)
            print(f"KNOWN-FINDING: property={pid} {k['id']} {k['what']} (hit {n}x in this run)")

    # Sanity of the run itself: vacuous runs are harness errors, not passes
    problems = []
    n_inc = sum(merged["inconclusive"].values())
    max_inc = getattr(prop, "MAX_INCONCLUSIVE", 0.5)
    if merged["evaluations"] and n_inc / merged["evaluations"] > max_inc:
        problems.append(f"inconclusive fraction {n_inc}/{merged['evaluations']} > {max_inc}")
    if timed_out:
        print(f"  time limit: shards {timed_out} were stopped after {deadline_each:.0f}s; their finished cases are counted, the rest is inconclusive")
        if len(timed_out) > max(1, nshards // 4):
            problems.append(f"{len(timed_out)} of {nshards} shards ran into the time limit")
    if total >= 16:
        for lab in getattr(prop, "REQUIRED_LABELS", []):
            if merged["labels"].get(lab, 0) == 0:
                problems.append(f"required class '{lab}' has no members")
        if len(merged["nontrivial"]) < 2:
            problems.append("fewer than 2 distinct non-trivial cases")

    wall = time.time() - t0
    evidence = {
        "property_id": pid,
        "tier": tier,
        "seed": seed,
        "level": getattr(prop, "LEVEL", "exploration"),
        "coverage": {
            "evaluations": merged["evaluations"],
            "distinct_nontrivial": len(merged["nontrivial"]),
            "rule": prop.RULE,
            "samples": merged["samples"] or [{"note": "no non-trivial sample"}],
            "class_histogram": dict(sorted(merged["labels"].items())),
            "inconclusive": merged["inconclusive"],
            "worst_observed": merged["metrics"],
            "known_finding_hits": known_hits,
            "shards": nshards,
            "coverage_guided_campaigns": {"processes": len(fuzz_jobs), "runs_each": fuzz_runs, "engine": "atheris/libFuzzer via hypothesis fuzz_one_input"} if fuzz_jobs else None,
            "shards_stopped_by_time_limit": len(timed_out),
        },
        "assumptions": list(getattr(prop, "ASSUMPTIONS", [])),
        "wall_s": round(wall, 2),
        "violations": len(new_violations),
    }
    if not args.no_evidence:
        os.makedirs(os.path.join(VERIF, "evidence"), exist_ok=True)
        with open(os.path.join(VERIF, "evidence", f"{pid}.json"), "w") as f:
            json.dump(evidence, f, indent=1, default=common._json_default)

    print(
        f"{pid} tier={tier} seed={seed} cases={merged['evaluations']} "
        f"nontrivial={len(merged['nontrivial'])} inconclusive={n_inc} "
        f"violations={len(new_violations)} wall={wall:.1f}s"
    )
    if merged["inconclusive"]:
        print("  inconclusive:", merged["inconclusive"])
    if merged["metrics"]:
        print("  worst observed:", {k: f"{v:.3g}" for k, v in sorted(merged["metrics"].items())})
    for ln in lines:
        print(ln)
    if lines:
        sys.exit(1)
    if problems:
        print(f"HARNESS-ERROR property={pid}: " + "; ".join(problems))
        sys.exit(2)
    sys.exit(0)


def replay(pid, path):
    from vlib import worker

    prop = worker.load_prop(pid)
    with open(path) as f:
        blob = json.load(f)
    case = blob["case"] if "case" in blob and "property" in blob else blob
    res = worker.safe_check(prop, case)
    known = {k["id"] for k in load_known() if k.get("property") == pid and k.get("status") == "open"}
    bad = [v for v in res.violations if not (v["known"] and v["known"] in known)]
    for v in res.violations:
        print(f"  bucket={v['bucket']} known={v['known']}: {v['msg'][:1000]}")
    if res.inconclusive:
        print(f"  inconclusive: {res.inconclusive}")
    print(f"  labels={res.labels} metrics={res.metrics}")
    if bad:
        print(f"VIOLATION property={pid} replay={path}")
        return 1
    print(f"{pid} replay ok")
    return 0


if __name__ == "__main__":
    main()
