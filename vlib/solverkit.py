"""Library-side construction of solvers from a JSON configuration (public API only)."""

import functools

import jax
import jax.numpy as jnp
import numpy as np

from probdiffeq import ivpsolve, probdiffeq
from vlib import lib
from vlib.polyfield import PolyField

CALIBS = ["none", "mle", "mle_nocorr", "dynamic", "dynamic_relin"]
STRATS = ["filter", "fixedinterval", "fixedpoint"]


def make_field(cfg):
    if cfg.get("lin") == "implicit":
        # implicit residual  r(u, .., u^(k), t) = u^(k) + P(u, .., u^(k), t): P also depends on the highest derivative
        field = PolyField(cfg["d"], cfg["order"] + 1, cfg.get("degree", 2), with_time=True)
        field.implicit, field.ode_order = True, cfg["order"]
        return field
    field = PolyField(cfg["d"], cfg["order"], cfg.get("degree", 2), with_time=True)
    field.implicit, field.ode_order = False, cfg["order"]
    return field


def make_ode(field, C, jac="materialize"):
    if jac == "materialize":
        jacobian = probdiffeq.jacobian_materialize()
    elif jac == "mc_fwd":
        jacobian = probdiffeq.jacobian_monte_carlo_fwd()
    else:
        jacobian = probdiffeq.jacobian_monte_carlo_rev()
    if getattr(field, "implicit", False):
        if field.ode_order == 1:

            @functools.partial(probdiffeq.residual_velocity, jacobian=jacobian)
            def res(u, du, /, *, t):
                return du + field.jax_eval(C, [u, du], t)

        else:

            @functools.partial(probdiffeq.residual_acceleration, jacobian=jacobian)
            def res(u, du, ddu, /, *, t):
                return ddu + field.jax_eval(C, [u, du, ddu], t)

        return res
    if field.order == 1:

        @functools.partial(probdiffeq.ode, jacobian=jacobian)
        def vf(u, /, *, t):
            return field.jax_eval(C, [u], t)

    else:

        @functools.partial(probdiffeq.ode_order_two, jacobian=jacobian)
        def vf(u, du, /, *, t):
            return field.jax_eval(C, [u, du], t)

    return vf


def make_strategy(name):
    return {
        "filter": probdiffeq.strategy_filter,
        "fixedinterval": probdiffeq.strategy_smoother_fixedinterval,
        "fixedpoint": probdiffeq.strategy_smoother_fixedpoint,
    }[name]()


def make_constraint(ssm, cfg, vf):
    if cfg["lin"] == "ts0":
        return ssm.constraint_ode_ts0(vf)
    if cfg["lin"] == "ts1":
        return ssm.constraint_ode_ts1(vf)
    if cfg["lin"] == "residual":
        return ssm.constraint_residual(probdiffeq.residual_from_ode(vf))
    if cfg["lin"] == "implicit":
        return ssm.constraint_residual(vf)  # make_ode returned a JetResidual
    raise ValueError(cfg["lin"])


def make_prior(ssm, cfg, tcoeffs, base_scale, init_std=None):
    """IWP prior.  cfg['init'] in {'exact','inexact','flags','diffuse','std'}."""
    fact, d, n = cfg["fact"], cfg["d"], cfg["n"]
    if fact == "isotropic":
        scale = None if base_scale is None else jnp.asarray(base_scale).reshape(())
    else:
        scale = None if base_scale is None else jnp.broadcast_to(jnp.asarray(base_scale), (d,))
    kind = cfg.get("init", "exact")
    pk = cfg.get("prior", "iwp")
    if pk != "iwp":
        # exponential priors (dense only): same initial-condition options through the public constructors
        kw = dict(output_scale=scale)
        if kind == "inexact":
            kw.update(is_exact=False, inexact_eps=cfg.get("inexact_eps", 1e-3))
        elif kind != "exact":
            raise ValueError("exponential priors are generated with exact/inexact initial states only")
        if pk == "ou":
            theta = jnp.asarray(np.asarray(cfg["prior_theta"], float))
            return ssm.prior_ornstein_uhlenbeck_integrated(lambda s: theta @ s, tcoeffs, **kw)
        return ssm.prior_matern(float(cfg["prior_length_scale"]), tcoeffs, **kw)
    if kind == "exact":
        return ssm.prior_wiener_integrated(tcoeffs, output_scale=scale)
    if kind == "inexact":
        return ssm.prior_wiener_integrated(tcoeffs, is_exact=False, inexact_eps=cfg.get("inexact_eps", 1e-3), output_scale=scale)
    if kind == "flags":
        flags = cfg["flags"]  # list of n booleans (per coefficient)
        if fact == "isotropic":
            is_exact = [jnp.asarray(bool(f)) for f in flags]
        else:
            is_exact = [jnp.asarray(bool(f)) * jnp.ones((d,), dtype=bool) for f in flags]
        return ssm.prior_wiener_integrated(tcoeffs, is_exact=is_exact, inexact_eps=cfg.get("inexact_eps", 1e-3), output_scale=scale)
    if kind == "diffuse":
        k = cfg["diffuse"]
        return ssm.prior_wiener_integrated(tcoeffs[: n - k], diffuse_derivatives=k, diffuse_eps=cfg.get("diffuse_eps", 1.0), output_scale=scale)
    if kind == "std":
        if fact == "isotropic":
            std = [jnp.asarray(init_std[i]) for i in range(n)]
        else:
            std = [jnp.ones((d,)) * init_std[i] for i in range(n)]
        return ssm.prior_wiener_integrated_diffuse(tcoeffs, std, output_scale=scale)
    raise ValueError(kind)


def init_std_vector(cfg, init_std=None):
    """The per-coefficient initial standard deviations implied by cfg (oracle side)."""
    n = cfg["n"]
    kind = cfg.get("init", "exact")
    if kind == "exact":
        return np.zeros(n)
    if kind == "inexact":
        return np.ones(n) * cfg.get("inexact_eps", 1e-3)
    if kind == "flags":
        return np.asarray([0.0 if f else cfg.get("inexact_eps", 1e-3) for f in cfg["flags"]])
    if kind == "diffuse":
        k = cfg["diffuse"]
        return np.concatenate([np.zeros(n - k), np.ones(k) * cfg.get("diffuse_eps", 1.0)])
    if kind == "std":
        return np.asarray(init_std, float)
    raise ValueError(kind)


def make_solver(ssm, cfg, constraint, constraint_init=None):
    strategy = make_strategy(cfg["strategy"])
    calib = cfg["calib"]
    kw = dict(strategy=strategy, constraint=constraint, constraint_init=constraint_init)
    if calib == "none":
        return probdiffeq.solver(**kw)
    if calib == "mle":
        return probdiffeq.solver_mle(**kw)
    if calib == "mle_nocorr":
        return probdiffeq.solver_mle(**kw, correct_asymptotic_underconfidence=False)
    if calib == "dynamic":
        return probdiffeq.solver_dynamic(**kw)
    if calib == "dynamic_relin":
        return probdiffeq.solver_dynamic(**kw, re_linearize_after_calibration=True)
    raise ValueError(calib)


def structure_key(cfg):
    keys = ["fact", "calib", "strategy", "lin", "n", "d", "order", "degree", "init", "cinit", "num_steps", "diffuse", "jac", "has_base", "inexact_eps", "diffuse_eps", "prior", "prior_theta", "prior_length_scale"]
    return tuple((k, str(cfg.get(k))) for k in keys) + (("flags", str(cfg.get("flags"))),)


_CACHE = {}


def fixed_grid_runner(cfg):
    """jit-compiled  (C, tcoeffs(n,d), grid, damp, base, init_std) -> (t, mean, cov, scale, extras)."""
    key = ("fixed",) + structure_key(cfg)
    if key in _CACHE:
        return _CACHE[key]
    field = make_field(cfg)
    fact = cfg["fact"]

    def run(C, tc, grid, damp, base, init_std):
        ssm = lib.ssm(fact)
        vf = make_ode(field, C, cfg.get("jac", "materialize"))
        tcoeffs = [tc[i] for i in range(cfg["n"])]
        prior = make_prior(ssm, cfg, tcoeffs, base, init_std)
        constraint = make_constraint(ssm, cfg, vf)
        cinit = make_constraint(ssm, cfg, vf) if cfg.get("cinit") else None
        solver = make_solver(ssm, cfg, constraint, cinit)
        solve = ivpsolve.solve_fixed_grid(solver=solver)
        sol = solve(prior, grid=grid, damp=damp)
        return _solution_outputs(cfg, sol)

    fn = jax.jit(run)
    _CACHE[key] = fn
    return fn


# ------------------------------------------------------------------------------------
# Recording proxies (public extension points only: the adaptive loop is written against
# the Solver / error-estimator protocols, so wrapping objects observe every call).


ATTEMPT_BUDGET = 4000


class Recorder:
    def __init__(self):
        self.events = []
        self.attempts = 0
        self.budget_hit = False

    def count_attempt(self, t, dt, n):
        """Host-side attempt counter (watchdog): termination is not part of any property, and a
        run that needs more than ATTEMPT_BUDGET attempts is made to finish (dt -> huge) and the
        case is counted as inconclusive."""
        self.events.append(("attempt", np.asarray(t).tolist(), np.asarray(dt).tolist(), np.asarray(n).tolist()))
        self.attempts += 1
        if self.attempts > ATTEMPT_BUDGET:
            self.budget_hit = True
        return np.asarray(self.budget_hit)

    def emit(self, kind, *vals):
        def cb(*a):
            self.events.append((kind,) + tuple(np.asarray(x).tolist() for x in a))

        jax.debug.callback(cb, *vals, ordered=True)

    def take(self):
        jax.effects_barrier()
        ev, self.events = self.events, []
        self.attempts = 0
        hit, self.budget_hit = self.budget_hit, False
        if hit:
            ev.append(("budget_hit",))
        return ev


class RecSolver:
    def __init__(self, inner, rec):
        self.inner, self.rec = inner, rec

    def __repr__(self):
        return f"RecSolver({self.inner!r})"

    def init(self, t, u, *, damp):
        return self.inner.init(t=t, u=u, damp=damp)

    def step(self, state, *, dt, damp):
        from jax.experimental import io_callback

        over = io_callback(self.rec.count_attempt, jax.ShapeDtypeStruct((), jnp.bool_), state.t, dt, state.num_steps, ordered=True)
        dt = jnp.where(over, 1e30, dt)
        return self.inner.step(state=state, dt=dt, damp=damp)

    def interpolate_fwd(self, *, t, interp_from, interp_to):
        self.rec.emit("interp", t, interp_from.t, interp_to.t)
        return self.inner.interpolate_fwd(t=t, interp_from=interp_from, interp_to=interp_to)

    def interpolate_fwd_at_t1(self, *, t, interp_from, interp_to):
        self.rec.emit("interp_at", t, interp_from.t, interp_to.t)
        return self.inner.interpolate_fwd_at_t1(t=t, interp_from=interp_from, interp_to=interp_to)

    @property
    def is_suitable_for_save_at(self):
        return self.inner.is_suitable_for_save_at

    @property
    def is_suitable_for_save_every_step(self):
        return self.inner.is_suitable_for_save_every_step

    def userfriendly_output(self, *, solution0, solution, solution1):
        return self.inner.userfriendly_output(solution0=solution0, solution=solution, solution1=solution1)

    def offgrid_marginals(self, t, *, solution):
        return self.inner.offgrid_marginals(t, solution=solution)


class RecError:
    def __init__(self, inner, rec):
        self.inner, self.rec = inner, rec

    def init_error(self):
        return self.inner.init_error()

    def estimate_error_norm(self, state, previous, proposed, *, dt, atol, rtol, damp):
        ep, st = self.inner.estimate_error_norm(state, previous, proposed, dt=dt, atol=atol, rtol=rtol, damp=damp)
        self.rec.emit("error", previous.t, dt, ep)
        return ep, st


def make_error(ssm, cfg, vf):
    e = cfg.get("error", {})
    constraint = make_constraint(ssm, {**cfg, "lin": e.get("lin", cfg["lin"])}, vf)
    norm = None
    if e.get("norm") == "rms_then_scale":
        norm = probdiffeq.error_norm_rms_then_scale()
    kw = dict(constraint=constraint, error_norm=norm, re_linearize_before_error=bool(e.get("relin", False)),
              error_per_unit_step=bool(e.get("per_unit_step", False)))
    if e.get("kind", "residual") == "state":
        return probdiffeq.error_state_std(**kw, derivative_idx=int(e.get("derivative_idx", 0)))
    return probdiffeq.error_residual_std(**kw)


def make_control(cfg):
    c = cfg.get("control", {"kind": "integral"})
    kw = {k: c[k] for k in ("safety", "factor_min", "factor_max") if k in c}
    if c.get("kind", "integral") == "pi":
        for k in ("exponent_integral", "exponent_proportional"):
            if k in c:
                kw[k] = c[k]
        return ivpsolve.control_proportional_integral(**kw)
    return ivpsolve.control_integral(**kw)


def accepted_steps(events):
    """[(t_from, dt)] of accepted attempts, from ('attempt', t, dt, n) / ('error', t, dt, ep)."""
    if any(e[0] == "budget_hit" for e in events):
        from vlib import common

        raise common.Inconclusive(f"attempt budget ({ATTEMPT_BUDGET}) exhausted")
    errs = [e for e in events if e[0] == "error"]
    return [(e[1], e[2]) for e in errs if e[3] >= 1.0], errs


def _solution_outputs(cfg, sol):
    mean, cov = sol.u.to_multivariate_normal()
    out = dict(t=sol.t, mean=mean, cov=cov, scale=sol.output_scale, num_steps=sol.num_steps)
    if cfg["strategy"] != "filter":
        fm, fc = sol.solution_full.filtering.to_multivariate_normal()
        out["filt_mean"], out["filt_cov"] = fm, fc
        post = sol.solution_full.posterior
        out["post_marg_mean"], out["post_marg_cov"] = post.marginal.to_multivariate_normal()
        cond = jax.vmap(lambda c: c.preconditioner_apply())(post.conditional)
        out["bw_A"], out["bw_b"], out["bw_L"] = cond.A, cond.noise.mean_flat, cond.noise.cholesky_flat
    return out


def adaptive_save_at_runner(cfg):
    """(C, tc, save_at, atol, rtol, dt0, eps, damp, base, init_std) -> (outputs, events)."""
    key = ("save_at",) + structure_key(cfg) + (("num_save", str(cfg.get("num_save"))), ("clip", str(cfg.get("clip"))),
                                                ("control", str(cfg.get("control"))), ("error", str(cfg.get("error"))),
                                                ("terminal", str(cfg.get("terminal"))))
    if key in _CACHE:
        return _CACHE[key]
    field = make_field(cfg)
    fact = cfg["fact"]
    rec = Recorder()

    def run(C, tc, save_at, atol, rtol, dt0, eps, damp, base, init_std):
        ssm = lib.ssm(fact)
        vf = make_ode(field, C, cfg.get("jac", "materialize"))
        tcoeffs = [tc[i] for i in range(cfg["n"])]
        prior = make_prior(ssm, cfg, tcoeffs, base, init_std)
        constraint = make_constraint(ssm, cfg, vf)
        cinit = make_constraint(ssm, cfg, vf) if cfg.get("cinit") else None
        solver = RecSolver(make_solver(ssm, cfg, constraint, cinit), rec)
        error = RecError(make_error(ssm, cfg, vf), rec)
        control = make_control(cfg)
        if cfg.get("terminal"):
            solve = ivpsolve.solve_adaptive_terminal_values(solver, error, control=control, clip_dt=bool(cfg.get("clip", True)))
            sol = solve(prior, t0=save_at[0], t1=save_at[-1], atol=atol, rtol=rtol, dt0=dt0, eps=eps, damp=damp)
            sol = jax.tree.map(lambda s: s[None], sol)
        else:
            solve = ivpsolve.solve_adaptive_save_at(solver=solver, error=error, control=control, clip_dt=bool(cfg.get("clip", False)), warn=False)
            sol = solve(prior, save_at=save_at, atol=atol, rtol=rtol, dt0=dt0, eps=eps, damp=damp)
        return _solution_outputs(cfg, sol) if not cfg.get("terminal") else dict(
            t=sol.t, mean=sol.u.to_multivariate_normal()[0], cov=sol.u.to_multivariate_normal()[1], scale=sol.output_scale, num_steps=sol.num_steps)

    jitted = jax.jit(run)

    def call(*args):
        rec.take()
        out = jitted(*args)
        out = jax.tree.map(np.asarray, out)
        return out, rec.take()

    _CACHE[key] = call
    return call


def save_every_step_runner(cfg):
    """test_util.solve_adaptive_save_every_step (native Python loop) with recording."""
    from probdiffeq.util import test_util

    field = make_field(cfg)
    fact = cfg["fact"]
    rec = Recorder()

    def call(C, tc, t0, t1, atol, rtol, dt0, eps, damp, base, init_std):
        rec.take()
        ssm = lib.ssm(fact)
        vf = make_ode(field, jnp.asarray(C), cfg.get("jac", "materialize"))
        tcoeffs = [jnp.asarray(tc[i]) for i in range(cfg["n"])]
        prior = make_prior(ssm, cfg, tcoeffs, base, init_std)
        constraint = make_constraint(ssm, cfg, vf)
        cinit = make_constraint(ssm, cfg, vf) if cfg.get("cinit") else None
        solver = RecSolver(make_solver(ssm, cfg, constraint, cinit), rec)
        error = RecError(make_error(ssm, cfg, vf), rec)
        solve = test_util.solve_adaptive_save_every_step(solver, error, control=make_control(cfg), clip_dt=bool(cfg.get("clip", False)))
        sol = solve(prior, t0=t0, t1=t1, atol=atol, rtol=rtol, dt0=dt0, eps=eps, damp=damp)
        out = jax.tree.map(np.asarray, _solution_outputs(cfg, sol))
        return out, rec.take(), (solver.inner, sol)

    return call
