"""Library-side construction of solvers from a JSON configuration (public API only)."""

import functools

import jax
import jax.numpy as jnp
import numpy as np

from probdiffeq import ivpsolve, probdiffeq
from vlib import lib
from vlib.polyfield import PolyField

CALIBS = ["none", "mle", "mle_nocorr", "dynamic", "dynamic_relin"]
STRATS = ["filter", "fixedinterval", "fixedpoint"]


def make_field(cfg):
    return PolyField(cfg["d"], cfg["order"], cfg.get("degree", 2), with_time=True)


def make_ode(field, C, jac="materialize"):
    if jac == "materialize":
        jacobian = probdiffeq.jacobian_materialize()
    elif jac == "mc_fwd":
        jacobian = probdiffeq.jacobian_monte_carlo_fwd()
    else:
        jacobian = probdiffeq.jacobian_monte_carlo_rev()
    if field.order == 1:

        @functools.partial(probdiffeq.ode, jacobian=jacobian)
        def vf(u, /, *, t):
            return field.jax_eval(C, [u], t)

    else:

        @functools.partial(probdiffeq.ode_order_two, jacobian=jacobian)
        def vf(u, du, /, *, t):
            return field.jax_eval(C, [u, du], t)

    return vf


def make_strategy(name):
    return {
        "filter": probdiffeq.strategy_filter,
        "fixedinterval": probdiffeq.strategy_smoother_fixedinterval,
        "fixedpoint": probdiffeq.strategy_smoother_fixedpoint,
    }[name]()


def make_constraint(ssm, cfg, vf):
    if cfg["lin"] == "ts0":
        return ssm.constraint_ode_ts0(vf)
    if cfg["lin"] == "ts1":
        return ssm.constraint_ode_ts1(vf)
    if cfg["lin"] == "residual":
        return ssm.constraint_residual(probdiffeq.residual_from_ode(vf))
    raise ValueError(cfg["lin"])


def make_prior(ssm, cfg, tcoeffs, base_scale, init_std=None):
    """IWP prior.  cfg['init'] in {'exact','inexact','flags','diffuse','std'}."""
    fact, d, n = cfg["fact"], cfg["d"], cfg["n"]
    if fact == "isotropic":
        scale = None if base_scale is None else jnp.asarray(base_scale).reshape(())
    else:
        scale = None if base_scale is None else jnp.broadcast_to(jnp.asarray(base_scale), (d,))
    kind = cfg.get("init", "exact")
    if kind == "exact":
        return ssm.prior_wiener_integrated(tcoeffs, output_scale=scale)
    if kind == "inexact":
        return ssm.prior_wiener_integrated(tcoeffs, is_exact=False, inexact_eps=cfg.get("inexact_eps", 1e-3), output_scale=scale)
    if kind == "flags":
        flags = cfg["flags"]  # list of n booleans (per coefficient)
        if fact == "isotropic":
            is_exact = [jnp.asarray(bool(f)) for f in flags]
        else:
            is_exact = [jnp.asarray(bool(f)) * jnp.ones((d,), dtype=bool) for f in flags]
        return ssm.prior_wiener_integrated(tcoeffs, is_exact=is_exact, inexact_eps=cfg.get("inexact_eps", 1e-3), output_scale=scale)
    if kind == "diffuse":
        k = cfg["diffuse"]
        return ssm.prior_wiener_integrated(tcoeffs[: n - k], diffuse_derivatives=k, diffuse_eps=cfg.get("diffuse_eps", 1.0), output_scale=scale)
    if kind == "std":
        if fact == "isotropic":
            std = [jnp.asarray(init_std[i]) for i in range(n)]
        else:
            std = [jnp.ones((d,)) * init_std[i] for i in range(n)]
        return ssm.prior_wiener_integrated_diffuse(tcoeffs, std, output_scale=scale)
    raise ValueError(kind)


def init_std_vector(cfg, init_std=None):
    """The per-coefficient initial standard deviations implied by cfg (oracle side)."""
    n = cfg["n"]
    kind = cfg.get("init", "exact")
    if kind == "exact":
        return np.zeros(n)
    if kind == "inexact":
        return np.ones(n) * cfg.get("inexact_eps", 1e-3)
    if kind == "flags":
        return np.asarray([0.0 if f else cfg.get("inexact_eps", 1e-3) for f in cfg["flags"]])
    if kind == "diffuse":
        k = cfg["diffuse"]
        return np.concatenate([np.zeros(n - k), np.ones(k) * cfg.get("diffuse_eps", 1.0)])
    if kind == "std":
        return np.asarray(init_std, float)
    raise ValueError(kind)


def make_solver(ssm, cfg, constraint, constraint_init=None):
    strategy = make_strategy(cfg["strategy"])
    calib = cfg["calib"]
    kw = dict(strategy=strategy, constraint=constraint, constraint_init=constraint_init)
    if calib == "none":
        return probdiffeq.solver(**kw)
    if calib == "mle":
        return probdiffeq.solver_mle(**kw)
    if calib == "mle_nocorr":
        return probdiffeq.solver_mle(**kw, correct_asymptotic_underconfidence=False)
    if calib == "dynamic":
        return probdiffeq.solver_dynamic(**kw)
    if calib == "dynamic_relin":
        return probdiffeq.solver_dynamic(**kw, re_linearize_after_calibration=True)
    raise ValueError(calib)


def structure_key(cfg):
    keys = ["fact", "calib", "strategy", "lin", "n", "d", "order", "degree", "init", "cinit", "num_steps", "diffuse", "jac", "has_base", "inexact_eps", "diffuse_eps"]
    return tuple((k, str(cfg.get(k))) for k in keys) + (("flags", str(cfg.get("flags"))),)


_CACHE = {}


def fixed_grid_runner(cfg):
    """jit-compiled  (C, tcoeffs(n,d), grid, damp, base, init_std) -> (t, mean, cov, scale, extras)."""
    key = ("fixed",) + structure_key(cfg)
    if key in _CACHE:
        return _CACHE[key]
    field = make_field(cfg)
    fact = cfg["fact"]

    def run(C, tc, grid, damp, base, init_std):
        ssm = lib.ssm(fact)
        vf = make_ode(field, C, cfg.get("jac", "materialize"))
        tcoeffs = [tc[i] for i in range(cfg["n"])]
        prior = make_prior(ssm, cfg, tcoeffs, base, init_std)
        constraint = make_constraint(ssm, cfg, vf)
        cinit = make_constraint(ssm, cfg, vf) if cfg.get("cinit") else None
        solver = make_solver(ssm, cfg, constraint, cinit)
        solve = ivpsolve.solve_fixed_grid(solver=solver)
        sol = solve(prior, grid=grid, damp=damp)
        mean, cov = sol.u.to_multivariate_normal()
        out = dict(t=sol.t, mean=mean, cov=cov, scale=sol.output_scale, num_steps=sol.num_steps)
        if cfg["strategy"] == "filter":
            pass
        else:
            fm, fc = sol.solution_full.filtering.to_multivariate_normal()
            out["filt_mean"], out["filt_cov"] = fm, fc
        return out

    fn = jax.jit(run)
    _CACHE[key] = fn
    return fn
