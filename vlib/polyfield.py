"""Polynomial vector fields f(u, [u'], t) usable from JAX (library side), NumPy (oracle
side, with analytic Jacobians) and exact rational arithmetic (fractions.Fraction).

A field of ODE order k in d dimensions is  f_i(z) = sum_m C[i][m] * prod_j z_j**alpha[m][j]
with z = (u_1..u_d, [u'_1..u'_d], t).  `alpha` is static; `C` is a (d, M) coefficient array.
"""

import itertools
from fractions import Fraction

import numpy as np


def monomials(nvars, degree):
    """All exponent tuples of total degree <= degree, graded order (constant first)."""
    out = []
    for deg in range(degree + 1):
        for combo in itertools.combinations_with_replacement(range(nvars), deg):
            a = [0] * nvars
            for j in combo:
                a[j] += 1
            out.append(tuple(a))
    return out


class PolyField:
    def __init__(self, d, order, degree, with_time=True):
        self.d, self.order, self.degree, self.with_time = d, order, degree, with_time
        self.nvars = d * order + (1 if with_time else 0)
        self.alpha = monomials(self.nvars, degree)
        self.M = len(self.alpha)

    # ---- JAX -----------------------------------------------------------------------
    def jax_eval(self, C, jet, t):
        """jet: sequence of `order` arrays of shape (d,); C: (d, M) array."""
        import jax.numpy as jnp

        z = [jet[k][i] for k in range(self.order) for i in range(self.d)]
        if self.with_time:
            z.append(t)
        monos = []
        for a in self.alpha:
            term = jnp.ones(())
            for j, e in enumerate(a):
                if e > 0:
                    term = term * z[j] ** int(e)
            monos.append(term)
        return C @ jnp.stack(monos)

    def jax_eval_static(self, C, jet, t):
        """Same as jax_eval for a *concrete* coefficient matrix: only non-zero terms are built
        (keeps tracing through jax.experimental.jet cheap)."""
        import jax.numpy as jnp

        C = np.asarray(C, float)
        z = [jet[k][i] for k in range(self.order) for i in range(self.d)]
        if self.with_time:
            z.append(t)
        out = [jnp.zeros(()) * z[0] for _ in range(self.d)]
        for m, a in enumerate(self.alpha):
            rows = np.nonzero(C[:, m])[0]
            if len(rows) == 0:
                continue
            term = None
            for j, e in enumerate(a):
                if e > 0:
                    term = z[j] ** int(e) if term is None else term * z[j] ** int(e)
            for i in rows:
                out[i] = out[i] + (C[i, m] if term is None else C[i, m] * term)
        return jnp.stack(out)

    # ---- NumPy ---------------------------------------------------------------------
    def _z(self, jet, t):
        z = [jet[k][i] for k in range(self.order) for i in range(self.d)]
        if self.with_time:
            z.append(t)
        return z

    def np_eval(self, C, jet, t):
        z = self._z(jet, t)
        C = np.asarray(C)
        out = np.zeros(self.d, dtype=C.dtype if C.dtype == object else float) if C.dtype != object else np.array([0 * C[0, 0]] * self.d, dtype=object)
        for m, a in enumerate(self.alpha):
            term = 1
            for j, e in enumerate(a):
                if e:
                    term = term * z[j] ** e
            out = out + C[:, m] * term
        return out

    def np_jac(self, C, jet, t):
        """d f_i / d jet[k][j]  as an array (d, order, d)."""
        z = self._z(jet, t)
        C = np.asarray(C)
        zero = 0 * C[0, 0]
        J = np.array([[[zero] * self.d for _ in range(self.order)] for _ in range(self.d)], dtype=C.dtype if C.dtype == object else float)
        for m, a in enumerate(self.alpha):
            for v in range(self.d * self.order):
                e = a[v]
                if not e:
                    continue
                term = e
                for j, ej in enumerate(a):
                    p = ej - 1 if j == v else ej
                    if p:
                        term = term * z[j] ** p
                k, jj = divmod(v, self.d)
                J[:, k, jj] = J[:, k, jj] + C[:, m] * term
        return J

    def depends_on_time(self, C):
        if not self.with_time:
            return False
        C = np.asarray(C)
        tcol = self.nvars - 1
        return any(a[tcol] > 0 and np.any(C[:, m] != 0) for m, a in enumerate(self.alpha))

    # ---- exact rationals -------------------------------------------------------------
    def frac_coeffs(self, C, denom=4):
        return np.array([[Fraction(int(round(c * denom)), denom) for c in row] for row in np.asarray(C, float)], dtype=object)
