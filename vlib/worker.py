"""One shard of a property check: Hypothesis-driven generation, collect-then-shrink."""

import importlib
import json
import os
import sys
import time
import traceback
import warnings

from vlib import common


def load_prop(pid):
    import probdiffeq

    repo = os.environ.get("VERIF_REPO", "/repo")
    if not os.path.realpath(probdiffeq.__file__).startswith(os.path.realpath(repo) + os.sep):
        raise RuntimeError(f"probdiffeq imported from {probdiffeq.__file__}, expected under {repo}")
    return importlib.import_module(f"vlib.props.{pid.lower()}")


class Ctx:
    def __init__(self, tier, seed, shard, nshards):
        self.tier = tier
        self.seed = seed
        self.shard = shard
        self.nshards = nshards

    def rng(self, *salt):
        """Deterministic numpy RNG for choosing structure pools (not case values)."""
        import numpy as np

        return np.random.default_rng(common.derive_seed(self.seed, self.shard, *salt))


LAST_CASE = [None]


def safe_check(prop, case):
    """Run check_case; library exceptions on valid inputs become violations."""
    LAST_CASE[0] = case
    try:
        with warnings.catch_warnings():
            warnings.simplefilter("ignore")
            res = prop.check_case(case)
    except common.Inconclusive as e:
        res = common.Result()
        res.inconclusive = str(e) or "inconclusive"
    except common.LibraryError as e:
        res = common.Result()
        bucket = f"exception:{type(e.exc).__name__}:{e.where}"
        res.violate(bucket, f"library raised on a valid input: {e}")
    return res


def run_shard(pid, tier, seed, shard, nshards, n_examples, out_path):
    import hypothesis
    from hypothesis import HealthCheck, Phase, given, settings

    t0 = time.time()
    prop = load_prop(pid)
    ctx = Ctx(tier, seed, shard, nshards)
    strat = prop.strategy(ctx)
    hseed = common.derive_seed("hyp", pid, seed, shard)

    stats = {
        "evaluations": 0,
        "nontrivial_hashes": set(),
        "labels": {},
        "inconclusive": {},
        "samples": [],
        "violations": {},  # bucket -> dict(count, first_case, msg, known)
        "metrics": {},
        "harness_error": None,
    }

    base = dict(
        database=None,
        deadline=None,
        derandomize=False,
        report_multiple_bugs=False,
        suppress_health_check=[HealthCheck.too_slow, HealthCheck.data_too_large],
        print_blob=False,
    )

    def record(case, res):
        stats["evaluations"] += 1
        if res.inconclusive:
            key = res.inconclusive[:80]
            stats["inconclusive"][key] = stats["inconclusive"].get(key, 0) + 1
        for lab in res.labels:
            stats["labels"][lab] = stats["labels"].get(lab, 0) + 1
        for k, v in res.metrics.items():
            if k not in stats["metrics"] or v > stats["metrics"][k]:
                stats["metrics"][k] = v
        if res.nontrivial and not res.inconclusive:
            stats["nontrivial_hashes"].add(common.case_hash(case))
            if len(stats["samples"]) < 2:
                stats["samples"].append(case)
        for v in res.violations:
            b = stats["violations"].setdefault(
                v["bucket"],
                {"count": 0, "case": case, "msg": v["msg"], "known": v["known"]},
            )
            b["count"] += 1
            if len(common.jdump(case)) < len(common.jdump(b["case"])):
                b["case"], b["msg"] = case, v["msg"]
        # partial results, so that a shard that later runs into the runner's time limit is not lost
        if time.time() - last_partial[0] > 20.0:
            last_partial[0] = time.time()
            dump_stats(out_path + ".partial")

    def dump_stats(path=None):
        out = dict(stats)
        out["nontrivial_hashes"] = sorted(stats["nontrivial_hashes"])
        out["wall_s"] = time.time() - t0
        out["last_case"] = LAST_CASE[0]
        path = path or out_path
        with open(path + ".tmp", "w") as f:
            f.write(common.jdump(out))
        os.replace(path + ".tmp", path)

    last_partial = [time.time()]

    def on_stall(msg):
        case = LAST_CASE[0]
        res = common.Result()
        res.violate("stall", msg)
        record(case, res)
        dump_stats()
        os._exit(0)

    common.STALL_HOOK[0] = on_stall

    # Pinned cases first (regressions of fixed findings, replays), bypassing Hypothesis
    for name, case in getattr(prop, "pinned_cases", lambda ctx: [])(ctx):
        res = safe_check(prop, case)
        res.label(f"pinned:{name}")
        record(case, res)

    # Pass A: collect (never raises, so a shallow defect does not end the campaign)
    if n_examples > 0:

        @hypothesis.seed(hseed)
        @settings(max_examples=n_examples, phases=[Phase.generate], **base)
        @given(strat)
        def collect(case):
            res = safe_check(prop, case)
            record(case, res)

        collect()

    # Pass B: shrink each new (unknown) bucket, at most two per shard
    new_buckets = [b for b, v in stats["violations"].items() if not v["known"]]
    shrink_budget_s = float(os.environ.get("VERIF_SHRINK_S", 45.0 if tier == "quick" else 240.0))
    for bucket in new_buckets[:2]:
        best = {"case": stats["violations"][bucket]["case"], "msg": None}
        t_start = time.time()

        @hypothesis.seed(hseed)
        @settings(
            max_examples=max(n_examples, 1),
            phases=[Phase.generate, Phase.shrink],
            **base,
        )
        @given(strat)
        def shrink(case):
            if time.time() - t_start > shrink_budget_s:
                return
            res = safe_check(prop, case)
            hits = [v for v in res.violations if v["bucket"] == bucket]
            if hits:
                if len(common.jdump(case)) <= len(common.jdump(best["case"])):
                    best["case"], best["msg"] = case, hits[0]["msg"]
                raise AssertionError(bucket)

        try:
            shrink()
        except BaseException:  # noqa: BLE001  (AssertionError, Flaky, ...)
            pass
        if best["msg"] is not None:
            stats["violations"][bucket]["case"] = best["case"]
            stats["violations"][bucket]["msg"] = best["msg"]

    stats["nontrivial_hashes"] = sorted(stats["nontrivial_hashes"])
    stats["wall_s"] = time.time() - t0
    with open(out_path, "w") as f:
        f.write(common.jdump(stats))


def main():
    pid, tier, seed, shard, nshards, n_examples, out_path = sys.argv[1:8]
    try:
        run_shard(
            pid, tier, int(seed), int(shard), int(nshards), int(n_examples), out_path
        )
    except BaseException:  # noqa: BLE001
        tb = traceback.format_exc()
        with open(out_path, "w") as f:
            json.dump({"harness_error": tb}, f)
        try:
            with open(out_path + ".lastcase.json", "w") as f:
                f.write(common.jdump({"case": LAST_CASE[0]}))
        except Exception:  # noqa: BLE001
            pass
        sys.stderr.write(tb)
        sys.exit(2)


if __name__ == "__main__":
    main()
