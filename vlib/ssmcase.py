"""Shared generator / runner for fixed-grid state-space-model cases (C02, C03, C04, C12, C14...).

case = {"cfg": structure (everything that changes the XLA program), values...}
"""

import numpy as np
from hypothesis import strategies as st

from vlib import common, gen
from vlib import solverkit as sk
from vlib.ref import kalman as K

CALIB_REF = {"none": "none", "mle": "mle", "mle_nocorr": "mle", "dynamic": "dynamic", "dynamic_relin": "dynamic"}


def draw_structure(rng, *, strategies=("filter",), calibs=sk.CALIBS, lins=("ts0", "ts1"), nmax=9, facts=gen.FACTS,
                   dmax=3, steps=(2, 12), orders=(1, 2), inits=("exact", "inexact", "flags", "diffuse"), cinit=True):
    order = int(rng.choice(orders))
    n = int(rng.integers(order + 1, nmax + 1))
    # emphasise moderate orders, but keep the high ones present
    if rng.random() < 0.5:
        n = int(rng.integers(order + 1, min(nmax, 5) + 1))
    d = int(rng.integers(1, dmax + 1))
    cfg = dict(
        fact=str(rng.choice(facts)),
        calib=str(rng.choice(calibs)),
        strategy=str(rng.choice(strategies)),
        lin=str(rng.choice(lins)),
        n=n,
        d=d,
        order=order,
        degree=2,
        num_steps=int(rng.integers(steps[0], steps[1] + 1)),
        init=str(rng.choice(inits)),
        jac="materialize",
    )
    if cfg["init"] == "flags":
        flags = [bool(rng.integers(0, 2)) for _ in range(n)]
        cfg["flags"] = flags
    if cfg["init"] == "diffuse":
        cfg["diffuse"] = int(rng.integers(1, n - order + 1)) if n - order >= 1 else 0
        if cfg["diffuse"] == 0:
            cfg["init"] = "exact"
    # an initial-constraint update needs a non-degenerate initial covariance of the constrained coefficient:
    # inexact initial states, or diffuse derivatives that include the coefficient of order `order`
    # (the documented use of constraint_init)
    informative = cfg["init"] == "inexact" or (cfg["init"] == "diffuse" and n - cfg["diffuse"] <= order)
    cfg["cinit"] = bool(cinit and informative and rng.random() < 0.5)
    return cfg


@st.composite
def values(draw, cfg, *, hmin=1e-3, hmax=0.5, scale_decades=2.0, force_h=False):
    field = sk.make_field(cfg)
    n, d = cfg["n"], cfg["d"]
    # "tighter ranges at the highest orders": keeps most cases inside float64's reach
    if n >= 5 and not force_h:
        hmin = max(hmin, 1e-2)
    if n >= 7 and not force_h:
        hmin = max(hmin, 3e-2)
    tc_mode = draw(st.sampled_from(["consistent", "consistent", "arbitrary"]))
    C = draw(gen.mat(d, field.M, gen.quarter(-4, 4)))
    # keep the quadratic part small: avoids finite-time blow-up inside the test horizon
    tc = draw(gen.mat(n, d, gen.quarter(-6, 6)))
    incs = draw(gen.increments(cfg["num_steps"], hmin, hmax))
    t0 = draw(gen.quarter(-4, 4))
    damp = draw(st.sampled_from([0.0, 0.0, 1e-3, 0.1]))
    base_exp = draw(gen.vec(d if cfg["fact"] != "isotropic" else 1, gen.exponent(-scale_decades, scale_decades)))
    use_base = draw(st.booleans())
    return dict(cfg=cfg, C=C, tc=tc, tc_mode=tc_mode, incs=incs, t0=t0, damp=damp,
                base=[10.0**e for e in base_exp] if use_base else None)


def strategy_from_pool(pool, **kw):
    return st.sampled_from(pool).flatmap(lambda cfg: values(cfg, **kw))


# ------------------------------------------------------------------------------------


def case_arrays(case):
    cfg = case["cfg"]
    field = sk.make_field(cfg)
    n, d = cfg["n"], cfg["d"]
    C = np.asarray(case["C"], float)
    if not case.get("C_direct"):
        C = C * 0.5
        # damp the quadratic coefficients further
        for m, a in enumerate(field.alpha):
            if sum(a) >= 2:
                C[:, m] *= 0.25
        # tame the dynamics: Lipschitz constant x horizon stays O(1), so trajectories do not blow up
        T = float(np.sum(case["incs"]))
        C *= min(1.0, 1.0 / T)
        if getattr(field, "implicit", False):
            # keep d r / d u^(k) = I + (small): the observation stays informative about the highest derivative
            lo = field.d * field.ode_order
            for m, a in enumerate(field.alpha):
                if any(a[lo : lo + field.d]):
                    C[:, m] *= 0.25
    tc = np.asarray(case["tc"], float)
    if case.get("tc_mode") == "consistent" and not getattr(field, "implicit", False):
        # Taylor coefficients of the true solution (what a user passes); float series arithmetic
        from vlib.ref import series

        inits = [list(tc[j]) for j in range(field.order)]
        c = series.ode_taylor_coefficients(field, C.tolist(), inits, float(case["t0"]), n - field.order, one=1.0)
        tc = np.asarray(series.derivatives_from_coeffs(c), float)[:n]
    if cfg.get("init") == "diffuse":
        tc = tc.copy()
        tc[n - cfg["diffuse"] :] = 0.0  # library sets diffuse coefficients' mean to zero
    grid = case["t0"] + np.concatenate([[0.0], np.cumsum(case["incs"])])
    base = case.get("base")
    if base is None:
        base_vec = np.ones(d)
    elif cfg["fact"] == "isotropic":
        base_vec = np.ones(d) * base[0]
    else:
        base_vec = np.asarray(base, float)
    return field, C, tc, grid, base_vec


def run_library(case):
    import jax
    import jax.numpy as jnp

    cfg = case["cfg"]
    field, C, tc, grid, base_vec = case_arrays(case)
    std = sk.init_std_vector(cfg)
    base_arg = None
    if case.get("base") is not None:
        base_arg = jnp.asarray(base_vec[0] if cfg["fact"] == "isotropic" else base_vec)
    with common.lib_call("solve_fixed_grid"):
        par = prior_params(case)
        extra = {}
        if "theta" in par:
            extra["prior_theta"] = tuple(map(tuple, np.round(par["theta"], 12).tolist()))
        if "length_scale" in par:
            extra["prior_length_scale"] = float(par["length_scale"])
        fn = sk.fixed_grid_runner({**cfg, **extra, "has_base": base_arg is not None})
        out = fn(jnp.asarray(C), jnp.asarray(tc), jnp.asarray(grid), float(case["damp"]), base_arg, jnp.asarray(std))
        out = jax.tree.map(np.asarray, out)
    return out


def prior_params(case):
    """Deterministic parameters of a non-IWP prior, derived from the case values (dense only)."""
    cfg = case["cfg"]
    kind = cfg.get("prior", "iwp")
    d = cfg["d"]
    tcv = np.asarray(case["tc"], float)
    if kind == "ou":
        # a stable-ish linear map built from the drawn Taylor coefficients (pure function of the case)
        M = np.outer(np.cos(np.arange(1, d + 1) + tcv[0, 0]), np.sin(np.arange(1, d + 1) * 0.7 + tcv[-1, -1]))
        return dict(theta=M - np.eye(d) * (0.5 + abs(tcv[0, -1])))
    if kind == "matern":
        return dict(length_scale=0.5 + abs(float(tcv[0, 0])) * 0.5)
    return {}


def prior_drift(case):
    cfg = case["cfg"]
    kind = cfg.get("prior", "iwp")
    if kind == "iwp":
        return None
    import math

    n, d = cfg["n"], cfg["d"]
    q = n - 1
    F = np.zeros((n * d, n * d))
    for i in range(q):
        F[i * d : (i + 1) * d, (i + 1) * d : (i + 2) * d] = np.eye(d)
    par = prior_params(case)
    if kind == "ou":
        F[q * d :, q * d :] = par["theta"]
    else:
        z = math.sqrt(2 * (n - 0.5)) / par["length_scale"]
        for i in range(n):
            F[q * d :, i * d : (i + 1) * d] = -math.comb(n, i) * z ** (n - i) * np.eye(d)
    return F


def make_spec(case, mp=False):
    cfg = case["cfg"]
    field, C, tc, grid, base_vec = case_arrays(case)
    lin = "ts1" if cfg["lin"] in ("ts1", "residual") else cfg["lin"]
    return K.Spec(n=cfg["n"], d=cfg["d"], field=field, C=C, lin=lin, fact=cfg["fact"], damp=case["damp"],
                  base=base_vec, calib=CALIB_REF[cfg["calib"]], mle_correction=cfg["calib"] == "mle",
                  cinit=cfg.get("cinit", False), mp=mp, drift=prior_drift(case))


def run_reference(case, mp=False, smooth=False, perturb=0.0):
    cfg = case["cfg"]
    field, C, tc, grid, base_vec = case_arrays(case)
    spec = make_spec(case, mp=mp)
    std = sk.init_std_vector(cfg)
    P0 = np.diag(np.repeat(std, cfg["d"]) ** 2)
    try:
        f = K.ekf(spec, grid, tc.reshape(-1), P0, perturb=perturb)
    except (np.linalg.LinAlgError, ZeroDivisionError) as e:
        raise common.Inconclusive("textbook update undefined (singular innovation covariance)") from e
    N = spec.N
    # guard: textbook formulas undefined / ill-posed -> inconclusive, never a violation
    mags = max(float(np.max(np.abs(N.to_float(m[: cfg["d"]])))) for m in f["m"])
    if not np.isfinite(mags) or mags > 1e12:
        raise common.Inconclusive("reference trajectory blows up")
    if spec.calib == "dynamic":
        for s in f["scale"][1:]:
            sv = np.atleast_1d(N.to_float(s))
            if np.any(sv < 1e-9) or not np.all(np.isfinite(sv)):
                raise common.Inconclusive("dynamic scale (numerically) zero: textbook update undefined (F8 class)")
    if spec.calib == "mle":
        sv = np.atleast_1d(N.to_float(f["mle_scale"]))
        if np.any(sv < 1e-12) or not np.all(np.isfinite(sv)):
            raise common.Inconclusive("mle scale (numerically) zero")
    ref = dict(spec=spec, f=f, grid=grid)
    if smooth:
        try:
            ms, Ps, G = K.rts(spec, f)
        except (np.linalg.LinAlgError, ZeroDivisionError) as e:
            raise common.Inconclusive("textbook smoother undefined (singular predicted covariance)") from e
    else:
        ms, Ps, G = f["m"], f["P"], None
    scale = f["mle_scale"] if spec.calib == "mle" else None
    means, covs, pcovs = [], [], []
    for i in range(len(grid)):
        Pi = K.calibrate_cov(spec, Ps[i], scale) if scale is not None else Ps[i]
        Ppi = f["Pp"][max(i, 1)]
        Ppi = K.calibrate_cov(spec, Ppi, scale) if scale is not None else Ppi
        means.append(N.to_float(ms[i]))
        covs.append(N.to_float(Pi))
        pcovs.append(N.to_float(Ppi))
    ref.update(mean=np.asarray(means), cov=np.asarray(covs), pcov=np.asarray(pcovs), gains=G)
    if spec.calib == "mle":
        ref["scale"] = np.broadcast_to(N.to_float(f["mle_scale"]), (len(grid),) + np.shape(N.to_float(f["mle_scale"])))
    elif spec.calib == "dynamic":
        ref["scale"] = np.asarray([np.asarray(N.to_float(s)) for s in f["scale"]])
    else:
        ref["scale"] = np.ones((len(grid),) + ((cfg["d"],) if cfg["fact"] == "blockdiag" else ()))
    return ref


def cov_error(P, P_ref, Pp_ref, eps=1e-5):
    """|dP_ij| / (sqrt(Pii Pjj) + eps sqrt(Ppii Ppjj)): correlation-normalised with a floor that is
    eps times the *predicted* std, so exactly-known entries (zero variance) are compared absolutely."""
    if not np.all(np.isfinite(P)):
        return np.inf
    dd = np.sqrt(np.clip(np.diag(P_ref), 0, None))
    dp = np.sqrt(np.clip(np.diag(Pp_ref), 0, None))
    sc = np.outer(dd, dd) + eps * np.outer(dp, dp)
    sc = np.maximum(sc, 1e-300)
    return float(np.max(np.abs(P - P_ref) / sc))


def mean_error(m, m_ref, P_ref, Pp_ref, n, d, eps=1e-5):
    """Per-coefficient-block error relative to max|m_ref| + posterior std (+ eps * predicted std)."""
    if not np.all(np.isfinite(m)):
        return np.inf
    m = np.asarray(m, float).reshape(n, d)
    r = np.asarray(m_ref, float).reshape(n, d)
    sd = np.sqrt(np.clip(np.diag(P_ref), 0, None)).reshape(n, d)
    sp = np.sqrt(np.clip(np.diag(Pp_ref), 0, None)).reshape(n, d)
    worst = 0.0
    for i in range(n):
        scale = max(np.max(np.abs(r[i])) + np.max(sd[i]) + eps * np.max(sp[i]), 1e-300)
        worst = max(worst, float(np.max(np.abs(m[i] - r[i])) / scale))
    return worst


def tau(cfg, grid):
    """Tolerance schedule tau(n, h_min) (calibrated on the unchanged tree, see DESIGN.md)."""
    n = cfg["n"]
    hmin = float(np.min(np.diff(grid)))
    t = 1e-9
    if n >= 5:
        t *= 10.0 ** (n - 4)
    if hmin < 1e-2:
        t *= 10.0
    return min(t, 1e-5)


PERTURB = 2e-16
FACTOR = 100.0
TOL0 = 1e-9
SKIP = 1e-4


def mean_error_blocks(m, m_ref, P_ref, Pp_ref, n, d, eps=1e-5):
    """Per-coefficient-block error relative to max|m_ref| + posterior std (+ eps * predicted std)."""
    m = np.asarray(m, float).reshape(n, d)
    r = np.asarray(m_ref, float).reshape(n, d)
    sd = np.sqrt(np.clip(np.diag(P_ref), 0, None)).reshape(n, d)
    sp = np.sqrt(np.clip(np.diag(Pp_ref), 0, None)).reshape(n, d)
    out = np.zeros(n)
    for i in range(n):
        scale = max(np.max(np.abs(r[i])) + np.max(sd[i]) + eps * np.max(sp[i]), 1e-300)
        out[i] = np.max(np.abs(m[i] - r[i])) / scale if np.all(np.isfinite(m[i])) else np.inf
    return out


def cov_error_blocks(P, P_ref, Pp_ref, n, d, eps=1e-5):
    """(n, n) array: max normalised error over each coefficient-block pair."""
    dd = np.sqrt(np.clip(np.diag(P_ref), 0, None))
    dp = np.sqrt(np.clip(np.diag(Pp_ref), 0, None))
    sc = np.maximum(np.outer(dd, dd) + eps * np.outer(dp, dp), 1e-300)
    E = np.where(np.isfinite(P), np.abs(P - P_ref) / sc, np.inf)
    return E.reshape(n, d, n, d).max(axis=(1, 3))


def compare_marginals(res, tag, case, lib_mean, lib_cov, ref, pert, idx=None, expected=None, lib_idx=None, tol0=None):
    """Blockwise comparison of library marginals with the reference at all (or selected) output
    indices.  Tolerance per block = max(TOL0, FACTOR * attainable), attainable = distance between
    the reference and its perturbed twin; blocks beyond float64's reach (tol > SKIP) are skipped
    and counted.  Returns the number of blocks actually compared."""
    cfg = case["cfg"]
    n, d = cfg["n"], cfg["d"]
    K_ = len(ref["grid"])
    idx = range(K_) if idx is None else idx
    em = np.zeros(n)
    am = np.zeros(n)
    ec = np.zeros((n, n))
    ac = np.zeros((n, n))
    for pos, i in enumerate(idx):
        li = i if lib_idx is None else lib_idx[pos]
        exp_m = ref["mean"][i] if expected is None else expected[0][pos]
        exp_c = ref["cov"][i] if expected is None else expected[1][pos]
        em = np.maximum(em, mean_error_blocks(lib_mean[li], exp_m, ref["cov"][i], ref["pcov"][i], n, d))
        # (scales always come from the reference; `expected` only replaces the target values)
        dd = np.sqrt(np.clip(np.diag(ref["cov"][i]), 0, None))
        dp = np.sqrt(np.clip(np.diag(ref["pcov"][i]), 0, None))
        sc = np.maximum(np.outer(dd, dd) + 1e-5 * np.outer(dp, dp), 1e-300)
        Ecov = np.where(np.isfinite(lib_cov[li]), np.abs(lib_cov[li] - exp_c) / sc, np.inf)
        ec = np.maximum(ec, Ecov.reshape(n, d, n, d).max(axis=(1, 3)))
        if pert is None:
            am[:], ac[:] = np.inf, np.inf
        else:
            am = np.maximum(am, mean_error_blocks(pert["mean"][i], ref["mean"][i], ref["cov"][i], ref["pcov"][i], n, d))
            ac = np.maximum(ac, cov_error_blocks(pert["cov"][i], ref["cov"][i], ref["pcov"][i], n, d))
    tol0 = TOL0 if tol0 is None else tol0
    tol_m = np.maximum(tol0, FACTOR * am)
    tol_c = np.maximum(10 * tol0, FACTOR * ac)
    ok_m = tol_m <= SKIP
    ok_c = tol_c <= SKIP
    res.label(f"{tag}:mean_some_blocks_skipped" if ok_m.sum() < n else f"{tag}:mean_all_blocks")
    if not ok_m[0]:
        res.label(f"{tag}:illcond_solution_block")
    if ok_m.any():
        ratio = float(np.max(em[ok_m] / tol_m[ok_m]))
        res.metric(f"{tag}:mean/tol", ratio)
        if not ratio <= 1.0:
            b = int(np.argmax(np.where(ok_m, em / tol_m, 0)))
            sev = ":gross" if not ratio <= 1e4 else ""
            res.violate(f"{tag}:mean{sev}", f"{tag}: mean of coefficient block {b} differs from the reference by {em[b]:.3e} (> {tol_m[b]:.1e})")
    if ok_c.any():
        ratio = float(np.max(ec[ok_c] / tol_c[ok_c]))
        res.metric(f"{tag}:cov/tol", ratio)
        if not ratio <= 1.0:
            b = np.unravel_index(int(np.argmax(np.where(ok_c, ec / tol_c, 0))), ec.shape)
            sev = ":gross" if not ratio <= 1e4 else ""
            res.violate(f"{tag}:cov{sev}", f"{tag}: covariance block {b} differs from the reference by {ec[b]:.3e} (> {tol_c[b]:.1e})")
    return int(ok_m.sum()), int(ok_c.sum())


def perturbed_reference(case, smooth=False):
    try:
        return run_reference(case, mp=True, smooth=smooth, perturb=PERTURB)
    except common.Inconclusive:
        return None


# ------------------------------------------------------------------------------------
# adaptive runs: library side + reference on the recorded step sequence (oracle R3)


@st.composite
def adaptive_values(draw, cfg):
    field = sk.make_field(cfg)
    n, d = cfg["n"], cfg["d"]
    C = draw(gen.mat(d, field.M, gen.quarter(-4, 4)))
    tc = draw(gen.mat(n, d, gen.quarter(-6, 6)))
    t0 = draw(gen.quarter(-4, 4))
    T = draw(st.floats(0.3, 2.0))
    lo_tol = -7.0 if n >= 4 else -5.0
    rtol = draw(gen.log10_uniform(lo_tol, -2.0))
    atol_factor = draw(st.sampled_from([0.1, 1.0, 10.0]))
    dt0 = draw(gen.log10_uniform(-3.0, 0.3))
    eps = draw(st.sampled_from([1e-8, 1e-12]))
    damp = draw(st.sampled_from([0.0, 0.0, 1e-3]))
    base_exp = draw(gen.vec(d if cfg["fact"] != "isotropic" else 1, gen.exponent(-1.0, 1.0)))
    use_base = draw(st.booleans())
    return dict(cfg=cfg, C=C, tc=tc, tc_mode="consistent", incs=[T], t0=t0, damp=damp, rtol=rtol, atol=rtol * atol_factor,
                dt0=dt0, eps=eps, base=[10.0**e for e in base_exp] if use_base else None)


def adaptive_args(case):
    import jax.numpy as jnp

    cfg = case["cfg"]
    field, C, tc, grid, base_vec = case_arrays(case)
    std = sk.init_std_vector(cfg)
    base_arg = None
    if case.get("base") is not None:
        base_arg = jnp.asarray(base_vec[0] if cfg["fact"] == "isotropic" else base_vec)
    return dict(C=jnp.asarray(C), tc=jnp.asarray(tc), t0=float(grid[0]), t1=float(grid[-1]), base=base_arg, std=jnp.asarray(std))


def run_save_at(case, save_at, cfg_extra=None):
    """Library: solve_adaptive_save_at on `save_at` (array). Returns (outputs, events)."""
    import jax.numpy as jnp

    cfg = {**case["cfg"], **(cfg_extra or {})}
    a = adaptive_args(case)
    cfg = {**cfg, "num_save": len(save_at), "has_base": a["base"] is not None}
    with common.lib_call("solve_adaptive_save_at"):
        fn = sk.adaptive_save_at_runner(cfg)
        out, ev = fn(a["C"], a["tc"], jnp.asarray(save_at), float(case["atol"]), float(case["rtol"]), float(case["dt0"]),
                     float(case["eps"]), float(case["damp"]), a["base"], a["std"])
    return out, ev


def trace_nodes(events, t0):
    """Merge the recorded accepted steps with the interpolation events into reference nodes.
    Returns (ts, kinds, report_index) where report_index[k] = node index of the k-th reported
    checkpoint (k >= 1; index 0 is the initial time)."""
    ts, kinds, report = [float(t0)], ["init"], [0]
    for e in events:
        if e[0] == "error" and e[3] >= 1.0:
            ts.append(e[1] + e[2])
            kinds.append("step")
        elif e[0] == "interp":
            t = float(e[1])
            # strictly inside the last accepted step: insert before that step node
            pos = len(ts) - 1
            ts.insert(pos, t)
            kinds.insert(pos, "ckpt")
            report.append(pos)
        elif e[0] == "interp_at":
            report.append(len(ts) - 1)
    # indices of report entries shift when later checkpoints are inserted before a step node:
    # recompute by matching in order
    return ts, kinds, report


def reference_on_trace(case, events, smooth=False, perturb=0.0, mp=True, requested=None):
    """Reference filter/smoother on the recorded step sequence merged with the checkpoints.
    requested=(times, eps): place the checkpoints from the requested times and the recorded accepted steps alone (a requested
    time within eps of the end of the first step that reaches it is that step end, otherwise an interior node), without relying
    on the recorded interpolation calls."""
    cfg = case["cfg"]
    field, C, tc, grid, base_vec = case_arrays(case)
    spec = make_spec(case, mp=mp)
    std = sk.init_std_vector(cfg)
    P0 = np.diag(np.repeat(std, cfg["d"]) ** 2)
    # rebuild nodes with stable report indices
    ts, kinds = [float(grid[0])], ["init"]
    report_t = [float(grid[0])]
    report_kind = ["init"]
    for e in events:
        if e[0] == "error" and e[3] >= 1.0:
            ts.append(e[1] + e[2]), kinds.append("step")
        elif e[0] == "interp":
            pos = len(ts) - 1
            ts.insert(pos, float(e[1])), kinds.insert(pos, "ckpt")
            report_t.append(float(e[1])), report_kind.append("ckpt")
        elif e[0] == "interp_at":
            report_t.append(ts[-1]), report_kind.append("at")
    if requested is not None:
        times, eps = requested
        ends = [float(grid[0])] + [e[1] + e[2] for e in events if e[0] == "error" and e[3] >= 1.0]
        ts, kinds = list(ends), ["init"] + ["step"] * (len(ends) - 1)
        report_t, report_kind = [float(grid[0])], ["init"]
        for t in [float(x) for x in times[1:]]:
            j = next((k for k, b in enumerate(ends) if b + eps >= t), None)
            if j is None:
                raise common.Inconclusive("a requested time lies beyond the recorded steps")
            if ends[j] > t + eps:
                pos = ts.index(ends[j])
                ts.insert(pos, t), kinds.insert(pos, "ckpt")
                report_t.append(t), report_kind.append("ckpt")
            else:
                report_t.append(ends[j]), report_kind.append("at")
    if any(ts[i + 1] <= ts[i] for i in range(len(ts) - 1)):
        raise common.Inconclusive("recorded nodes are not strictly increasing (checkpoints closer than float spacing)")
    try:
        f = K.ekf(spec, ts, tc.reshape(-1), P0, nodes=kinds, perturb=perturb)
    except (np.linalg.LinAlgError, ZeroDivisionError) as e:
        raise common.Inconclusive("textbook update undefined (singular innovation covariance)") from e
    N = spec.N
    if spec.calib == "dynamic":
        for s in f["scale"][1:]:
            sv = np.atleast_1d(N.to_float(s))
            if np.any(sv < 1e-9) or not np.all(np.isfinite(sv)):
                raise common.Inconclusive("dynamic scale (numerically) zero: textbook update undefined (F8 class)")
    if spec.calib == "mle":
        sv = np.atleast_1d(N.to_float(f["mle_scale"]))
        if np.any(sv < 1e-12) or not np.all(np.isfinite(sv)):
            raise common.Inconclusive("mle scale (numerically) zero")
    if smooth:
        try:
            ms, Ps, G = K.rts(spec, f)
        except (np.linalg.LinAlgError, ZeroDivisionError) as e:
            raise common.Inconclusive("textbook smoother undefined (singular predicted covariance)") from e
    else:
        ms, Ps, G = f["m"], f["P"], None
    scale = f["mle_scale"] if spec.calib == "mle" else None
    # node index of every reported entry
    idx = []
    for t, kind in zip(report_t, report_kind):
        cands = [i for i, (tt, kk) in enumerate(zip(ts, kinds)) if tt == t and (kk == "ckpt") == (kind == "ckpt")]
        idx.append(cands[-1] if cands else ts.index(t))
    means, covs, pcovs, scales, nsteps = [], [], [], [], []
    for i in idx:
        Pi = K.calibrate_cov(spec, Ps[i], scale) if scale is not None else Ps[i]
        Ppi = f["Pp"][max(i, 1)]
        Ppi = K.calibrate_cov(spec, Ppi, scale) if scale is not None else Ppi
        means.append(N.to_float(ms[i])), covs.append(N.to_float(Pi)), pcovs.append(N.to_float(Ppi))
        # number of accepted steps up to and including the step that contains / ends at this node
        j = i
        while kinds[j] == "ckpt":
            j += 1
        nsteps.append(sum(1 for k in kinds[: j + 1] if k == "step"))
        if spec.calib == "mle":
            scales.append(np.asarray(N.to_float(f["mle_scale"])))
        elif spec.calib == "dynamic":
            scales.append(np.asarray(N.to_float(f["scale"][j])))
        else:
            scales.append(np.ones((cfg["d"],) if cfg["fact"] == "blockdiag" else ()))
    return dict(grid=np.asarray(report_t), mean=np.asarray(means), cov=np.asarray(covs), pcov=np.asarray(pcovs),
                scale=np.asarray(scales), num_steps=np.asarray(nsteps), ts=ts, kinds=kinds, f=f, spec=spec, idx=idx,
                all_mean=[N.to_float(m) for m in ms], all_cov=[N.to_float(K.calibrate_cov(spec, P, scale) if scale is not None else P) for P in Ps])


# ------------------------------------------------------------------------------------
# R4: joint law from a returned backward Markov factorisation


def backward_dense(out, cfg):
    """[(A_i, b_i, Q_i)] with x_i | x_{i+1} ~ N(A_i x_{i+1} + b_i, Q_i), coefficient-major."""
    from vlib import lib

    fact, n, d = cfg["fact"], cfg["n"], cfg["d"]
    perm = lib.perm_to_coeff_major(fact, n, d)
    res = []
    for A, b, L in zip(out["bw_A"], out["bw_b"], out["bw_L"]):
        Ad = lib.embed_mat(fact, A, d)
        bd = lib.embed_vec(fact, b, d)
        Ld = lib.embed_mat(fact, L, d)
        Ad, bd, Qd = Ad[np.ix_(perm, perm)], bd[perm], (Ld @ Ld.T)[np.ix_(perm, perm)]
        res.append((Ad, bd, Qd))
    return res


def cross_error(Cx, Cx_ref, Pa, Pb, Ppa, Ppb, eps=1e-5):
    if not np.all(np.isfinite(Cx)):
        return np.inf
    sa = np.sqrt(np.clip(np.diag(Pa), 0, None))
    sb = np.sqrt(np.clip(np.diag(Pb), 0, None))
    pa = np.sqrt(np.clip(np.diag(Ppa), 0, None))
    pb = np.sqrt(np.clip(np.diag(Ppb), 0, None))
    sc = np.maximum(np.outer(sa, sb) + eps * np.outer(pa, pb), 1e-300)
    return float(np.max(np.abs(Cx - Cx_ref) / sc))


def reference_cross_cov(ref_all_cov, gains, i, j):
    """Cov(x_i, x_j) = G_i ... G_{j-1} P^s_j for node indices i < j (float arrays)."""
    M = np.eye(ref_all_cov[j].shape[0])
    for k in range(i, j):
        M = M @ gains[k]
    return M @ ref_all_cov[j]
