"""Coverage-guided campaign (atheris / libFuzzer) over the *same* generator and oracle as the Hypothesis shards.

usage: python -m vlib.fuzz <ID> <tier> <seed> <runs> <out.json>

The byte string chosen by libFuzzer is decoded by Hypothesis (`fuzz_one_input`) into a case of the property's strategy, so coverage
feedback from the library's Python code (probdiffeq is imported under atheris' instrumentation) steers which cases are tried; the
oracle is the property's `check_case`.  Violations are collected (never raised: a shallow defect must not end the campaign) and the
statistics are dumped in the shard format of vlib.worker, so that the runner merges a campaign like one more shard.  libFuzzer exits
the process itself, therefore the statistics file is rewritten after every case.
"""

import os
import sys
import tempfile
import time


def main():
    pid, tier, seed, runs, out_path = sys.argv[1], sys.argv[2], int(sys.argv[3]), int(sys.argv[4]), sys.argv[5]
    import atheris

    with atheris.instrument_imports(include=["probdiffeq"]):
        import probdiffeq  # noqa: F401
        import probdiffeq.ivpsolve  # noqa: F401
        import probdiffeq.probdiffeq  # noqa: F401

    from hypothesis import HealthCheck, given, settings

    from vlib import common, worker

    prop = worker.load_prop(pid)
    ctx = worker.Ctx(tier, seed, 10_000, 10_001)  # a shard index of its own: pinned cases of other shards are not repeated here
    strat = prop.strategy(ctx)
    t0 = time.time()
    stats = {"evaluations": 0, "nontrivial_hashes": set(), "labels": {}, "inconclusive": {}, "samples": [], "violations": {}, "metrics": {}, "harness_error": None}

    def dump():
        out = dict(stats)
        out["nontrivial_hashes"] = sorted(stats["nontrivial_hashes"])
        out["wall_s"] = time.time() - t0
        out["last_case"] = worker.LAST_CASE[0]
        with open(out_path + ".tmp", "w") as f:
            f.write(common.jdump(out))
        os.replace(out_path + ".tmp", out_path)

    @settings(database=None, deadline=None, suppress_health_check=list(HealthCheck), print_blob=False)
    @given(strat)
    def one(case):
        res = worker.safe_check(prop, case)
        res.label("driver:atheris")
        stats["evaluations"] += 1
        if res.inconclusive:
            key = res.inconclusive[:80]
            stats["inconclusive"][key] = stats["inconclusive"].get(key, 0) + 1
        for lab in res.labels:
            stats["labels"][lab] = stats["labels"].get(lab, 0) + 1
        for k, v in res.metrics.items():
            if k not in stats["metrics"] or v > stats["metrics"][k]:
                stats["metrics"][k] = v
        if res.nontrivial and not res.inconclusive:
            stats["nontrivial_hashes"].add(common.case_hash(case))
            if len(stats["samples"]) < 1:
                stats["samples"].append(case)
        for v in res.violations:
            b = stats["violations"].setdefault(v["bucket"], {"count": 0, "case": case, "msg": v["msg"], "known": v["known"]})
            b["count"] += 1
            if len(common.jdump(case)) < len(common.jdump(b["case"])):
                b["case"], b["msg"] = case, v["msg"]
        dump()

    corpus = tempfile.mkdtemp(prefix=f"verif_fuzz_{pid}_")
    # starting corpus: the empty corpus (libFuzzer always tries it) plus a few pseudo-random byte strings long enough for Hypothesis to
    # decode a complete case (short inputs are rejected by the decoder and give no coverage to grow from)
    import hashlib

    for k in range(8):
        blob = b"".join(hashlib.sha256(f"{pid}:{seed}:{k}:{j}".encode()).digest() for j in range(8))
        with open(os.path.join(corpus, f"seed{k}"), "wb") as f:
            f.write(blob)
    dump()
    argv = [sys.argv[0], f"-runs={runs}", f"-seed={seed % (2**31 - 1) + 1}", "-max_len=512", "-len_control=0", "-verbosity=0", "-print_final_stats=0", f"-artifact_prefix={corpus}/", "-report_slow_units=3600", corpus]
    atheris.Setup(argv, one.hypothesis.fuzz_one_input)
    atheris.Fuzz()


if __name__ == "__main__":
    try:
        main()
    except SystemExit:
        raise
    except BaseException:  # noqa: BLE001
        import json
        import traceback

        tb = traceback.format_exc()
        with open(sys.argv[5], "w") as f:
            json.dump({"harness_error": tb}, f)
        sys.stderr.write(tb)
        sys.exit(2)
