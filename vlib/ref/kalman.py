"""Textbook (extended) Kalman filter / RTS smoother in covariance form (oracle R1/R2/R3).

Written from the mathematics only; shares no code with probdiffeq.  State layout is
coefficient-major: x = (u, u', ..., u^(q)) each of dimension d, index = i*d + k.

Works on float64 ndarrays or on object ndarrays of mpmath.mpf (set `mp=True`).
"""

import math

import numpy as np

# ----------------------------------------------------------------------------- numbers


class Num:
    """Number backend: float64 (fast) or mpmath (50 digits)."""

    def __init__(self, mp=False, dps=50):
        self.mp = mp
        if mp:
            import mpmath

            self.mpm = mpmath
            mpmath.mp.dps = dps

    def arr(self, x):
        x = np.asarray(x)
        if not self.mp:
            return x.astype(float)
        f = np.vectorize(lambda v: self.mpm.mpf(float(v)) if not isinstance(v, self.mpm.mpf) else v, otypes=[object])
        return f(x) if x.size else x.astype(object)

    def zeros(self, *shape):
        if not self.mp:
            return np.zeros(shape)
        out = np.empty(shape, dtype=object)
        out.fill(self.mpm.mpf(0))
        return out

    def eye(self, n):
        out = self.zeros(n, n)
        for i in range(n):
            out[i, i] = out[i, i] + 1
        return out

    def sqrt(self, x):
        if not self.mp:
            return np.sqrt(x)
        return np.vectorize(self.mpm.sqrt, otypes=[object])(x) if isinstance(x, np.ndarray) else self.mpm.sqrt(x)

    def num(self, x):
        return self.mpm.mpf(x) if self.mp else float(x)

    def to_float(self, x):
        return np.asarray(x, dtype=float) if not self.mp else np.vectorize(float, otypes=[float])(np.asarray(x, dtype=object)) if np.size(x) else np.zeros(np.shape(x))

    def solve(self, S, B):
        """Solve S X = B (S square, general) by Gaussian elimination with partial pivoting."""
        if not self.mp:
            return np.linalg.solve(S, B)
        S = S.copy()
        B = B.copy()
        n = S.shape[0]
        one_d = B.ndim == 1
        if one_d:
            B = B[:, None]
        for c in range(n):
            p = max(range(c, n), key=lambda r: abs(S[r, c]))
            if S[p, c] == 0:
                raise ZeroDivisionError("singular matrix in reference solve")
            if p != c:
                S[[c, p]] = S[[p, c]]
                B[[c, p]] = B[[p, c]]
            for r in range(c + 1, n):
                f = S[r, c] / S[c, c]
                if f != 0:
                    S[r, c:] = S[r, c:] - f * S[c, c:]
                    B[r] = B[r] - f * B[c]
        X = self.zeros(*B.shape)
        for r in range(n - 1, -1, -1):
            acc = B[r].copy()
            for c in range(r + 1, n):
                acc = acc - S[r, c] * X[c]
            X[r] = acc / S[r, r]
        return X[:, 0] if one_d else X


# ----------------------------------------------------------------------------- priors


def iwp_1d(q, h, N):
    """Exact transition and process-noise covariance of the q-times integrated Wiener process."""
    n = q + 1
    Phi = N.zeros(n, n)
    Q = N.zeros(n, n)
    h = N.num(h)
    for i in range(n):
        for j in range(i, n):
            Phi[i, j] = h ** (j - i) / math.factorial(j - i)
        for j in range(n):
            e = 2 * q + 1 - i - j
            Q[i, j] = h**e / (e * math.factorial(q - i) * math.factorial(q - j))
    return Phi, Q


def kron(A, B):
    ra, ca = A.shape
    rb, cb = B.shape
    out = np.empty((ra * rb, ca * cb), dtype=A.dtype if A.dtype == object else float)
    for i in range(ra):
        for j in range(ca):
            out[i * rb : (i + 1) * rb, j * cb : (j + 1) * cb] = A[i, j] * B
    return out


# ----------------------------------------------------------------------------- model spec


class Spec:
    """What the reference needs to know about a solver configuration."""

    def __init__(self, *, n, d, field, C, lin, fact, damp=0.0, base=None, calib="none",
                 mle_correction=True, cinit=False, mp=False, drift=None):
        self.n, self.d, self.field, self.lin, self.fact = n, d, field, lin, fact
        self.order = getattr(field, "ode_order", field.order)
        self.N = Num(mp)
        self.C = self.N.arr(C)
        self.damp = self.N.num(damp)
        self.base = self.N.arr(np.ones(d) if base is None else np.broadcast_to(np.asarray(base, float), (d,)))
        self.calib = calib
        self.mle_correction = mle_correction
        self.cinit = cinit
        # drift=None: integrated Wiener process; otherwise the (n*d x n*d) drift matrix F of the
        # documented SDE dx = F x dt + (e_q (x) diag(base)) dW  (exponential / OU / Matern priors)
        self.drift = None if drift is None else np.asarray(drift, float)

    # documented linearisation of the ODE constraint  u^(k) - f(u, .., t) = 0  at mean m
    def linearise(self, m, t):
        N, n, d, k = self.N, self.n, self.d, self.order
        if self.lin == "implicit":
            # r(U) = U_k + P(U_0..U_k, t); first-order Taylor expansion at the mean, reduced to the
            # factorisation's structure blockwise (dense: full, blockdiag: diagonal, isotropic: trace/d)
            jet = [m[i * d : (i + 1) * d] for i in range(k + 1)]
            px = self.field.np_eval(self.C, jet, N.num(t))
            J = self.field.np_jac(self.C, jet, N.num(t))  # (d, k+1, d)
            Hr = N.zeros(d, n * d)
            for a in range(d):
                Hr[a, k * d + a] = Hr[a, k * d + a] + 1
            for i in range(k + 1):
                if self.fact == "dense":
                    Hr[:, i * d : (i + 1) * d] = Hr[:, i * d : (i + 1) * d] + J[:, i, :]
                elif self.fact == "blockdiag":
                    for a in range(d):
                        Hr[a, i * d + a] = Hr[a, i * d + a] + J[a, i, a]
                else:
                    tr = sum(J[a, i, a] for a in range(d)) / d
                    for a in range(d):
                        Hr[a, i * d + a] = Hr[a, i * d + a] + tr
            r = m[k * d : (k + 1) * d] + px
            return Hr, r - Hr @ m
        jet = [m[i * d : (i + 1) * d] for i in range(k)]
        fx = self.field.np_eval(self.C, jet, N.num(t))
        H = N.zeros(d, n * d)
        for a in range(d):
            H[a, k * d + a] = H[a, k * d + a] + 1
        if self.lin == "ts0":
            return H, -fx
        J = self.field.np_jac(self.C, jet, N.num(t))  # (d, k, d)
        Jfull = N.zeros(d, n * d)
        for i in range(k):
            Jfull[:, i * d : (i + 1) * d] = J[:, i, :]
        if self.fact == "dense":
            Hr = H - Jfull
        elif self.fact == "blockdiag":
            Hr = H.copy()
            for a in range(d):
                for i in range(k):
                    Hr[a, i * d + a] = Hr[a, i * d + a] - J[a, i, a]
        else:  # isotropic: trace average times identity
            Hr = H.copy()
            for i in range(k):
                tr = sum(J[a, i, a] for a in range(d)) / d
                for a in range(d):
                    Hr[a, i * d + a] = Hr[a, i * d + a] - tr
        r = m[k * d : (k + 1) * d] - fx
        b = r - Hr @ m
        return Hr, b

    def whitened_rms(self, z, S):
        """Scalar (dense, isotropic) or per-dimension (blockdiag) whitened RMS of z under N(0, S)."""
        N = self.N
        if self.fact == "blockdiag":
            if any(not S[a, a] > 0 for a in range(self.d)):
                raise ZeroDivisionError("innovation variance not positive")
            return np.array([N.sqrt(z[a] * z[a] / S[a, a]) for a in range(self.d)], dtype=S.dtype)
        w = N.solve(S, z)
        quad = z @ w
        if quad < 0:
            raise ZeroDivisionError("innovation covariance not positive definite")
        return N.sqrt(quad / len(z))

    def scale_matrix(self, sigma):
        """diag over state of per-dimension factors (base * calibrated scale)."""
        N = self.N
        s = self.base * (sigma if np.ndim(sigma) else N.num(1) * sigma)
        return s


def transition(spec, h, sigma):
    """Exact discretisation (Phi, Q) of the prior over a step h with calibrated scale sigma."""
    N, n, d = spec.N, spec.n, spec.d
    if spec.drift is None:
        Phi1, Q1 = iwp_1d(n - 1, h, N)
        return kron(Phi1, N.eye(d)), process_noise(spec, Q1, sigma)
    s_ = spec.scale_matrix(sigma)
    B = np.zeros((n * d, d)) if not N.mp else N.zeros(n * d, d)
    for a in range(d):
        B[(n - 1) * d + a, a] = s_[a]
    return van_loan(N, spec.drift, B, h)


def van_loan(N, F, B, h):
    """expm(F h) and int_0^h e^{Fs} B B^T e^{F^T s} ds via Van Loan's block exponential."""
    nn = F.shape[0]
    if not N.mp:
        import scipy.linalg

        M = np.zeros((2 * nn, 2 * nn))
        M[:nn, :nn] = F * h
        M[:nn, nn:] = (B @ B.T) * h
        M[nn:, nn:] = -F.T * h
        E = scipy.linalg.expm(M)
        Phi = E[:nn, :nn]
        Q = E[:nn, nn:] @ Phi.T
        return Phi, (Q + Q.T) / 2
    mpm = N.mpm
    M = mpm.matrix(2 * nn, 2 * nn)
    BBt = B @ B.T
    hh = mpm.mpf(float(h))
    for i in range(nn):
        for j in range(nn):
            M[i, j] = mpm.mpf(float(F[i, j])) * hh
            M[i, nn + j] = BBt[i, j] * hh
            M[nn + i, nn + j] = -mpm.mpf(float(F[j, i])) * hh
    E = mpm.expm(M, method="taylor")
    Phi = np.array([[E[i, j] for j in range(nn)] for i in range(nn)], dtype=object)
    E12 = np.array([[E[i, nn + j] for j in range(nn)] for i in range(nn)], dtype=object)
    Q = E12 @ Phi.T
    return Phi, (Q + Q.T) / 2


def process_noise(spec, Q1, sigma):
    """kron(Q1, diag((base*sigma)^2))."""
    N = spec.N
    s = spec.scale_matrix(sigma)
    D = N.zeros(spec.d, spec.d)
    for a in range(spec.d):
        D[a, a] = s[a] * s[a]
    return kron(Q1, D)


def update(spec, m, P, H, b):
    N = spec.N
    z = H @ m + b
    S = H @ P @ H.T
    for a in range(len(z)):
        S[a, a] = S[a, a] + spec.damp * spec.damp
    PHt = P @ H.T
    K = N.solve(S.T, PHt.T).T
    m_new = m - K @ z
    P_new = P - K @ S @ K.T
    P_new = (P_new + P_new.T) / 2
    return m_new, P_new, z, S


def _xi(k, i):
    """Deterministic +-1 pattern (no RNG: the reference must be a pure function of the case)."""
    v = (1103515245 * (k * 7919 + i * 104729 + 12345) + 12345) % 2147483648
    return 1.0 if (v >> 16) & 1 else -1.0


def _chol_psd(N, A):
    """Lower Cholesky factor of a symmetric PSD matrix; non-positive pivots give zero columns."""
    nn = A.shape[0]
    L = N.zeros(nn, nn)
    A = A.copy()
    for j in range(nn):
        piv = A[j, j]
        if not piv > 0:
            continue
        r = N.sqrt(piv)
        L[j, j] = r
        for i in range(j + 1, nn):
            L[i, j] = A[i, j] / r
        for i in range(j + 1, nn):
            if L[i, j] != 0:
                A[i, j + 1 :] = A[i, j + 1 :] - L[i, j] * L[j + 1 :, j]
    return L


def _perturb(N, m, P, k, delta, h, n, d):
    """Rounding model of a square-root solver that works in Taylor-scaled coordinates
    x~ = T(h)^-1 x, T(h) = diag(h^(q-i)/(q-i)!):  the scaled mean and the scaled Cholesky factor
    are perturbed *additively, relative to their largest entry*:
        m~ <- m~ + delta*max|m~|*xi,   L~ <- L~ + delta*max|L~|*Xi,   P~ = L~ L~^T.
    (A backward-stable QR-based implementation commits errors of this form; small eigen-
    directions of P lose eps*sqrt(cond) digits.)  Used only to estimate the accuracy attainable
    in float64, i.e. to widen tolerances soundly; never to decide a comparison by itself."""
    if not delta:
        return m, P
    q = n - 1
    hh = N.num(h)
    t1 = [hh ** (q - i) / math.factorial(q - i) for i in range(n)]
    tv = np.array([t1[i] for i in range(n) for _ in range(d)], dtype=object if N.mp else float)
    ms = m / tv
    Ps = P / np.outer(tv, tv)
    L = _chol_psd(N, Ps)
    nn = n * d
    mmax = max(abs(x) for x in ms) if nn else 0
    lmax = max(abs(L[i, j]) for i in range(nn) for j in range(nn)) if nn else 0
    dl = N.num(delta)
    xi_m = np.array([_xi(k, i) for i in range(nn)], dtype=object if N.mp else float)
    Xi = np.array([[_xi(k * 131 + 17 + i, j) for j in range(nn)] for i in range(nn)], dtype=object if N.mp else float)
    if N.mp:
        xi_m, Xi = N.arr(xi_m.astype(float)), N.arr(Xi.astype(float))
    ms2 = ms + dl * mmax * xi_m
    L2 = L + dl * lmax * Xi
    Ps2 = L2 @ L2.T + (Ps - L @ L.T)  # keep whatever the pivot-skipping factor did not capture
    Pn = Ps2 * np.outer(tv, tv)
    return ms2 * tv, (Pn + Pn.T) / 2


def ekf(spec, ts, m0, P0, nodes=None, perturb=0.0):
    """Run the reference filter over times `ts`.

    nodes[i] (for i >= 1) is "step" (predict + update at ts[i]) or "ckpt" (prediction-only
    node inside a step; it uses the scale of the step interval that contains it and is skipped
    for calibration).  Returns a dict of per-node quantities.
    """
    N, n, d, q = spec.N, spec.n, spec.d, spec.n - 1
    ts = [float(t) for t in ts]
    if nodes is None:
        nodes = ["init"] + ["step"] * (len(ts) - 1)
    m, P = N.arr(m0), N.arr(P0)
    one = N.num(1)
    unit = one if spec.fact != "blockdiag" else N.arr(np.ones(d))
    out = dict(m=[], P=[], mp=[], Pp=[], Phi=[], scale=[], kind=list(nodes), ts=list(ts), perturb=perturb)
    run_sq, ndata = (0 * unit), 0

    if spec.cinit:
        H, b = spec.linearise(m, ts[0])
        m, P, z, S = update(spec, m, P, H, b)
        run_sq = run_sq + spec.whitened_rms(z, S) ** 2
        ndata += 1
    out["m"].append(m), out["P"].append(P), out["mp"].append(m), out["Pp"].append(P)
    out["Phi"].append(None), out["scale"].append(unit)
    if perturb and len(ts) > 1:
        m, P = _perturb(N, m, P, 0, perturb, ts[1] - ts[0], n, d)
    last_step_m = m  # (perturbed) state at the last accepted step end: the dynamic local scale is computed from it

    # which step interval contains each checkpoint node -> scale lookup happens lazily
    i = 1
    while i < len(ts):
        # collect nodes up to and including the next "step" node
        j = i
        while j < len(ts) and nodes[j] != "step":
            j += 1
        has_step = j < len(ts)
        t_from = ts[i - 1]
        sigma = unit
        if has_step and spec.calib == "dynamic":
            h = ts[j] - _last_step_time(ts, nodes, i)
            # local scale is computed from the state at the last *accepted* step end
            m_from, t_from_step = _state_at_last_step(out, ts, nodes, i)
            if perturb:
                # rounding model: the residual that defines the local scale is a difference of nearly equal numbers when the step is
                # small; its attainable accuracy is only visible if the state it is computed from carries the modelled rounding
                m_from = last_step_m
            Phi, Q_unit = transition(spec, ts[j] - t_from_step, unit)
            mu = Phi @ m_from
            H, b = spec.linearise(mu, ts[j])
            S0 = H @ Q_unit @ H.T
            for a in range(d):
                S0[a, a] = S0[a, a] + spec.damp * spec.damp
            sigma = spec.whitened_rms(H @ mu + b, S0)
        for kk in range(i, (j if has_step else len(ts) - 1) + 1):
            h = ts[kk] - ts[kk - 1]
            Phi, Qs = transition(spec, h, sigma)
            mp = Phi @ m
            Pp = Phi @ P @ Phi.T + Qs
            Pp = (Pp + Pp.T) / 2
            if nodes[kk] == "step":
                H, b = spec.linearise(mp, ts[kk])
                m, P, z, S = update(spec, mp, Pp, H, b)
                run_sq = run_sq + spec.whitened_rms(z, S) ** 2
                ndata += 1
            else:
                m, P = mp, Pp
            out["m"].append(m), out["P"].append(P), out["mp"].append(mp), out["Pp"].append(Pp)
            if perturb and kk + 1 < len(ts):
                m, P = _perturb(N, m, P, kk, perturb, ts[kk + 1] - ts[kk], n, d)
            if nodes[kk] == "step":
                last_step_m = m
            out["Phi"].append(Phi), out["scale"].append(sigma)
        i = (j if has_step else len(ts) - 1) + 1

    nsteps = sum(1 for k in nodes if k == "step")
    out["num_steps"] = nsteps
    if spec.calib == "mle":
        mle = N.sqrt(run_sq / max(ndata, 1))
        if spec.mle_correction:
            mle = mle / N.sqrt(N.num(nsteps))
        out["mle_scale"] = mle
    else:
        out["mle_scale"] = unit
    return out


def _last_step_time(ts, nodes, i):
    for k in range(i - 1, -1, -1):
        if nodes[k] in ("step", "init"):
            return ts[k]
    return ts[0]


def _state_at_last_step(out, ts, nodes, i):
    for k in range(i - 1, -1, -1):
        if nodes[k] in ("step", "init"):
            return out["m"][k], ts[k]
    return out["m"][0], ts[0]


def calibrate_cov(spec, P, scale):
    """P * scale^2 (per dimension for blockdiag)."""
    N = spec.N
    if np.ndim(scale) == 0:
        return P * (scale * scale)
    s = np.array([scale[a] for _ in range(spec.n) for a in range(spec.d)], dtype=P.dtype)
    return P * np.outer(s, s)


def rts(spec, f):
    """Rauch-Tung-Striebel pass over the filter output; returns smoothed (m, P, gains).
    If the filter was run with a rounding-model perturbation, the backward pass is perturbed
    in the same way (gains and smoothed states), so that the attainable-accuracy estimate
    covers the backward recursion too."""
    N = spec.N
    K = len(f["m"])
    delta, ts = f.get("perturb", 0.0), f.get("ts")
    ms, Ps = [None] * K, [None] * K
    G = [None] * K
    ms[-1], Ps[-1] = f["m"][-1], f["P"][-1]
    for i in range(K - 2, -1, -1):
        Phi, Pp = f["Phi"][i + 1], f["Pp"][i + 1]
        A = f["P"][i] @ Phi.T
        if all(A[r, c] == 0 for r in range(A.shape[0]) for c in range(A.shape[1])):
            Gi = A
        else:
            Gi = N.solve(Pp.T, A.T).T
        G[i] = Gi
        ms[i] = f["m"][i] + Gi @ (ms[i + 1] - f["mp"][i + 1])
        Pi = f["P"][i] + Gi @ (Ps[i + 1] - Pp) @ Gi.T
        Ps[i] = (Pi + Pi.T) / 2
        if delta and i > 0:
            # the smoothed state handed to the next backward step carries rounding as well
            mi, Pi2 = _perturb(N, ms[i], Ps[i], 9000 + i, delta, ts[i + 1] - ts[i], spec.n, spec.d)
            ms[i], Ps[i] = mi, Pi2
    return ms, Ps, G
