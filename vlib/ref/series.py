"""Exact truncated power-series arithmetic (oracle R6).

Series are Python lists [a_0, a_1, ..., a_K] of numbers (fractions.Fraction for exact
results, floats for speed) representing sum_j a_j s^j.
"""

import math
from fractions import Fraction


def s_add(a, b):
    return [x + y for x, y in zip(a, b)]


def s_scale(a, c):
    return [c * x for x in a]


def s_mul(a, b):
    K = len(a)
    out = [0 * a[0]] * K
    for i, x in enumerate(a):
        if x == 0:
            continue
        for j in range(K - i):
            out[i + j] = out[i + j] + x * b[j]
    return out


def s_pow(a, e, one):
    K = len(a)
    out = [one] + [0 * one] * (K - 1)
    for _ in range(e):
        out = s_mul(out, a)
    return out


def s_deriv(a):
    """d/ds of a series, padded with a zero to keep the length."""
    return [(j + 1) * a[j + 1] for j in range(len(a) - 1)] + [0 * a[0]]


def eval_poly_series(field, C, var_series, one):
    """Evaluate the polynomial field on series-valued variables. Returns d series."""
    K = len(var_series[0])
    zero = [0 * one] * K
    cache = {}
    out = [list(zero) for _ in range(field.d)]
    for m, alpha in enumerate(field.alpha):
        if all(C[i][m] == 0 for i in range(field.d)):
            continue
        term = [one] + [0 * one] * (K - 1)
        for j, e in enumerate(alpha):
            if e:
                key = (j, e)
                if key not in cache:
                    cache[key] = s_pow(var_series[j], e, one)
                term = s_mul(term, cache[key])
        for i in range(field.d):
            if C[i][m] != 0:
                out[i] = s_add(out[i], s_scale(term, C[i][m]))
    return out


def ode_taylor_coefficients(field, C, inits, t0, num, one=Fraction(1)):
    """Normalised Taylor coefficients c_0..c_{k+num-1} (each a list of d numbers) of the solution
    of u^(k) = f(u, ..., u^(k-1), t) with u^(j)(t0) = inits[j];  derivatives are j! * c_j."""
    k, d = field.order, field.d
    total = k + num
    c = [[0 * one] * d for _ in range(total)]
    for j in range(k):
        for i in range(d):
            c[j][i] = inits[j][i] / math.factorial(j) * one
    for m in range(num):
        K = m + 1  # series truncated after s^m
        var_series = []
        for j in range(k):  # j-th derivative of u as a series in s, up to order m
            for i in range(d):
                ser = []
                for r in range(K):
                    # coefficient of s^r in u^(j) is (r+j)!/r! * c_{r+j}
                    idx = r + j
                    val = c[idx][i] * (math.factorial(idx) // math.factorial(r)) if idx < total else 0 * one
                    ser.append(val)
                var_series.append(ser)
        if field.with_time:
            tser = [t0 * one] + ([one] if K > 1 else []) + [0 * one] * max(K - 2, 0)
            var_series.append(tser[:K])
        F = eval_poly_series(field, C, var_series, one)
        for i in range(d):
            c[m + k][i] = F[i][m] * math.factorial(m) / math.factorial(m + k) * one
    return c


def derivatives_from_coeffs(c):
    return [[math.factorial(j) * x for x in cj] for j, cj in enumerate(c)]


def total_derivatives_along_jet(field, C, jet, t0, num, one=Fraction(1)):
    """0th..(num)th total time derivatives of g(u(s), u'(s), ..., t0+s) at s=0 for the curve whose
    derivatives at t0 are `jet` (list of >= order+num vectors). g is the polynomial field with
    coefficient matrix C (any number of output rows = field.d rows of C)."""
    k, d = field.order, field.d
    K = num + 1
    var_series = []
    for j in range(k):
        for i in range(d):
            ser = []
            for r in range(K):
                idx = r + j
                val = jet[idx][i] * one / math.factorial(r) if idx < len(jet) else 0 * one
                ser.append(val)
            var_series.append(ser)
    if field.with_time:
        tser = [t0 * one] + ([one] if K > 1 else []) + [0 * one] * max(K - 2, 0)
        var_series.append(tser[:K])
    F = eval_poly_series(field, C, var_series, one)
    return [[math.factorial(r) * F[i][r] for i in range(len(F))] for r in range(K)]
