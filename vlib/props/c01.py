"""C01 - adaptive solves meet the tolerance; fixed-step solves converge at order q+1."""

import numpy as np
from hypothesis import strategies as st

from vlib import common, gen, ssmcase
from vlib import solverkit as sk

ID = "C01"
BUDGET = {"quick": 320, "thorough": 8000}
LEVEL = "exploration"
TECHNIQUE = "property-based testing (Hypothesis) on IVP families with independently known solutions: tolerance-proportionality bound for adaptive runs (final times built around recorded step ends), fitted convergence order on refined fixed grids"
LEVEL_TEXT = (
    "Generated smooth IVPs from families with independent solutions (logistic, polynomially forced linear decay incl. explicit time, stable "
    "linear systems, damped second-order oscillators, Riccati before blow-up, Lotka-Volterra, van der Pol; reference: SciPy DOP853 at 1e-13, "
    "cross-validated against closed forms), tolerances 1e-9..1e-2, initial steps 1e-4..3, 3 factorisations x 3 calibration modes x "
    "filter/fixed-point/fixed-interval x TS0/TS1 x 2..7 Taylor coefficients. Adaptive: a probe run records the natural step ends, then the "
    "final time is placed at a step end +- {1e-15..1e-6, 0.9 eps, 1.5 eps} (the clipping / 'at t1' / interpolation branches), with the "
    "terminal-value routine (clip on) and the checkpointed routine (clip off/on; two drawn interior checkpoints or 12 equispaced ones, so that several checkpoints fall into one accepted step); the error at every requested time must be <= K x (atol + "
    "rtol |u|), K = 5000 (measured over ~6000 runs on the unchanged tree: 99% below 30, maximum 875), i.e. only gross violations of tolerance proportionality are reported; finer defects of the estimate are C07's job. Fixed grids: uniform grids with N, 2N, 4N, 8N steps; the least-squares order over the asymptotic levels must reach "
    "min(number of coefficients - 2, 3) (first-order ODEs; min(n - 3, 2.5) for second-order ODEs: high orders hit the rounding floor within two refinements and the reduced models lose order on coupled systems) for filter and fixed-interval smoother - an order collapse shows in every pair of levels."
)
LEVEL_NOTE = (
    "K is a calibration (measured: 99% of runs below 30, maximum 173 at loose tolerances with the block-diagonal model on coupled systems); method instability is excluded by the family (no undamped "
    "oscillators, |Im lambda| T <= 6). Runs exceeding the attempt budget are inconclusive. Dynamic calibration with an exactly vanishing "
    "block residual is the recorded finding F8."
)
RULE = (
    "case = (mode adaptive|convergence, IVP family+parameters, solver structure from a seeded pool, tolerance, dt0, final-time placement or base grid); "
    "non-trivial = (adaptive) >= 1 rejected attempt or a clipped/overstepped final step, (convergence) >= 3 usable refinement levels"
)
ASSUMPTIONS = ["jacobian_materialize(); IWP priors with Taylor-coefficient initialisation; integral controller; residual error estimate; x64"]
REQUIRED_LABELS = ["mode:adaptive", "mode:convergence", "fact:dense", "fact:isotropic", "fact:blockdiag", "clip_branch", "terminal_values", "smoother", "n>=5", "several_checkpoints_in_one_step"]
MAX_INCONCLUSIVE = 0.5
K_BOUND = 5000.0

FAMILIES = ["logistic", "forced_decay", "linear_system", "oscillator", "riccati", "lotka_volterra", "van_der_pol"]


def strategy(ctx):
    rng = ctx.rng("c01-pool")
    size = 3 if ctx.tier == "quick" else 6
    pool = []
    for _ in range(size):
        fam = str(rng.choice(FAMILIES))
        order = 2 if fam == "oscillator" else 1
        d = {"logistic": 1, "forced_decay": 1, "riccati": 1, "oscillator": 1, "lotka_volterra": 2, "van_der_pol": 2}.get(fam, int(rng.integers(2, 4)))
        n = int(rng.integers(order + 1, 8))
        cfg = dict(fact=str(rng.choice(gen.FACTS)), calib=str(rng.choice(["none", "mle", "dynamic"])), lin=str(rng.choice(["ts0", "ts1"])),
                   n=n, d=d, order=order, degree=3 if fam == "van_der_pol" else 2, init="exact", jac="materialize", cinit=False, family=fam,
                   strategy="filter", num_steps=2)
        pool.append(cfg)

    @st.composite
    def one(draw):
        cfg = dict(draw(st.sampled_from(pool)))
        mode = draw(st.sampled_from(["adaptive", "adaptive", "convergence"]))
        if mode == "adaptive":
            cfg["strategy"] = draw(st.sampled_from(["filter", "fixedpoint"]))
            cfg["clip"] = draw(st.booleans())
            cfg["terminal"] = draw(st.booleans())
            # checkpoint layout: two interior checkpoints at drawn positions, or a dense equispaced layout (several
            # checkpoints inside one accepted step whenever the solver takes long steps)
            cfg["dense_ckpt"] = bool(not cfg["terminal"] and draw(st.booleans()))
            cfg["num_ckpt"] = 2 if cfg["terminal"] else (14 if cfg["dense_ckpt"] else 4)
        else:
            cfg["strategy"] = draw(st.sampled_from(["filter", "fixedinterval"]))
        case = dict(cfg=cfg, mode=mode, p=draw(gen.vec(8, st.floats(0.0, 1.0))), t0=draw(gen.quarter(-4, 4)),
                    T=draw(st.floats(0.5, 1.5)), log_rtol=draw(gen.exponent(-9.0, -2.0)), atol_factor=draw(st.sampled_from([1e-3, 0.1, 1.0, 1.0, 10.0, 1e3])),
                    dt0=draw(gen.log10_uniform(-4.0, 0.5)), eps=draw(st.sampled_from([1e-8, 1e-12])),
                    delta=draw(st.sampled_from(["0", "+1e-15", "-1e-15", "+1e-10", "-1e-10", "+1e-6", "-1e-6", "+1.5eps", "-1.5eps", "+0.9eps", "-0.9eps"])),
                    which_step=draw(st.integers(1, 3)), fracs=sorted(draw(st.lists(st.floats(0.1, 0.9), min_size=2, max_size=2, unique=True))),
                    N0=draw(st.integers(6, 12)))
        return case

    return one()


# ------------------------------------------------------------------------------------ families


def _ivp(case):
    """(field, C, inits (order x d), t0, T) of the drawn family member."""
    cfg = case["cfg"]
    fam, d, order = cfg["family"], cfg["d"], cfg["order"]
    p = np.asarray(case["p"], float)
    field = sk.make_field(cfg)
    C = np.zeros((d, field.M))
    t0, T = float(case["t0"]), float(case["T"])
    tcol = field.nvars - 1

    def idx(**powers):
        a = [0] * field.nvars
        for k, v in powers.items():
            a[int(k[1:])] = v
        return field.alpha.index(tuple(a))

    if fam == "logistic":
        a, k = 0.5 + 2.5 * p[0], 0.5 + 1.5 * p[1]
        C[0, idx(v0=1)] = a
        C[0, idx(v0=2)] = -a / k
        inits = [[k * (0.1 + 0.8 * p[2])]]
    elif fam == "forced_decay":
        lam = 0.5 + 3.0 * p[0]
        C[0, idx(v0=1)] = -lam
        C[0, idx(**{f"v{tcol}": 1})] = 2.0 * p[1] - 1.0
        C[0, idx(**{f"v{tcol}": 2})] = p[2] - 0.5
        C[0, idx()] = p[3] - 0.5
        inits = [[2.0 * p[4] - 1.0]]
    elif fam == "linear_system":
        rs = np.random.RandomState(int(p[0] * 1e6))  # matrix determined by the drawn parameter (pure function of the case)
        M = rs.uniform(-1, 1, size=(d, d))
        A = M - M.T  # rotation part, |Im| <= ~2
        A = A * (1.5 * p[1]) - np.diag(0.3 + 1.5 * np.asarray(p[2 : 2 + d]))
        for i in range(d):
            for j in range(d):
                C[i, idx(**{f"v{j}": 1})] = A[i, j]
        inits = [list(2.0 * np.asarray(p[5 : 5 + d] if d <= 3 else p[:d]) - 1.0)]
    elif fam == "oscillator":
        om, zeta = 1.0 + 3.0 * p[0], 0.1 + 0.8 * p[1]
        C[0, idx(v0=1)] = -om * om
        C[0, idx(v1=1)] = -2.0 * zeta * om
        inits = [[2.0 * p[2] - 1.0], [2.0 * p[3] - 1.0]]
    elif fam == "riccati":
        C[0, idx(v0=2)] = 1.0
        u0 = 0.2 + 0.6 * p[0]
        inits = [[u0]]
        T = min(T, 0.6 / u0)
    elif fam == "lotka_volterra":
        a, b, c, dd = 0.5 + p[0], 0.05 + 0.1 * p[1], 0.5 + p[2], 0.05 + 0.1 * p[3]
        C[0, idx(v0=1)] = a
        C[0, idx(v0=1, v1=1)] = -b
        C[1, idx(v1=1)] = -c
        C[1, idx(v0=1, v1=1)] = dd
        inits = [[5.0 + 10.0 * p[4], 5.0 + 10.0 * p[5]]]
    else:  # van der Pol, mu <= 1
        mu = 0.1 + 0.9 * p[0]
        C[0, idx(v1=1)] = 1.0
        C[1, idx(v1=1)] = mu
        C[1, idx(v0=2, v1=1)] = -mu
        C[1, idx(v0=1)] = -1.0
        inits = [[2.0 * p[1] - 1.0 + 0.5, 2.0 * p[2] - 1.0]]
    return field, C, np.asarray(inits, float), t0, t0 + T


def _reference(field, C, inits, t0, times):
    """DOP853 at 1e-13 on the first-order form."""
    from scipy.integrate import solve_ivp

    k, d = field.order, field.d

    def rhs(t, y):
        jet = [y[i * d : (i + 1) * d] for i in range(k)]
        top = field.np_eval(C, jet, t)
        return np.concatenate([y[d:], top]) if k > 1 else top

    times = np.asarray(times, float)
    uniq, inverse = np.unique(times, return_inverse=True)
    if uniq[0] < t0:
        raise common.Inconclusive("requested time before the initial time")
    sol = solve_ivp(rhs, (t0, float(uniq[-1])), inits.reshape(-1), method="DOP853", rtol=1e-13, atol=1e-13, t_eval=uniq, dense_output=False)
    if not sol.success or sol.y.shape[1] != len(uniq):
        raise common.Inconclusive("reference integrator failed")
    y = sol.y.T[inverse, :d]
    if not np.all(np.isfinite(y)) or np.max(np.abs(y)) > 1e3:
        raise common.Inconclusive("family member leaves |u| <= 1e3")
    return y


def _as_case(case, field, C, inits, t0, T):
    cfg = case["cfg"]
    n, d = cfg["n"], cfg["d"]
    tc = np.zeros((n, d))
    tc[: field.order] = inits
    rtol = 10.0 ** case["log_rtol"]
    return dict(cfg=cfg, C=C.tolist(), C_direct=True, tc=tc.tolist(), tc_mode="consistent", incs=[T - t0], t0=t0, damp=0.0, base=None,
                rtol=rtol, atol=rtol * case["atol_factor"], dt0=case["dt0"], eps=case["eps"])


def check_case(case):
    res = common.Result()
    cfg = case["cfg"]
    res.label(f"mode:{case['mode']}", f"fact:{cfg['fact']}", f"calib:{cfg['calib']}", f"family:{cfg['family']}", f"lin:{cfg['lin']}")
    if cfg["n"] >= 5:
        res.label("n>=5")
    if cfg["strategy"] != "filter":
        res.label("smoother")
    field, C, inits, t0, T = _ivp(case)
    if case["mode"] == "convergence":
        return _convergence(res, case, field, C, inits, t0, T)
    return _adaptive(res, case, field, C, inits, t0, T)


def _known_f8(cfg, field, C, inits, t0):
    """Finding F8: dynamic calibration with an exactly vanishing (block) residual -> 0/0."""
    if not cfg["calib"].startswith("dynamic"):
        return False
    f0 = field.np_eval(C, [inits[i] for i in range(field.order)], t0)
    # the residual of the first prediction vanishes exactly when the next Taylor coefficient is zero
    if cfg["fact"] == "blockdiag":
        return bool(np.any(f0 == 0.0))
    return bool(np.all(f0 == 0.0))


def _f8_rounding(cfg, case):
    """The first step is so small that its residual (O(dt0^(n-1)) relative) is below rounding: the
    computed residual can vanish exactly, which triggers the same 0/0 (same finding, F8)."""
    return cfg["calib"].startswith("dynamic") and float(case["dt0"]) ** max(cfg["n"] - cfg["order"], 1) < 1e-12


def _adaptive(res, case, field, C, inits, t0, T):
    cfg = case["cfg"]
    d = cfg["d"]
    lo = -9.0
    if cfg["n"] == 2 and case["log_rtol"] < -6.0:
        raise common.Inconclusive("tolerance below 1e-6 is skipped for two Taylor coefficients (more than 1e4 steps)")
    sc = _as_case(case, field, C, inits, t0, T)
    eps = case["eps"]
    # probe: natural step ends (no clipping)
    probe_cfg = {"terminal": False, "clip": False, "strategy": "filter"}
    out0, ev0 = ssmcase.run_save_at(sc, np.asarray([t0, T]), cfg_extra=probe_cfg)
    steps0, errs0 = sk.accepted_steps(ev0)
    if not np.all(np.isfinite(out0["mean"])):
        if _known_f8(cfg, field, C, inits, t0) or (_f8_rounding(cfg, case) and not steps0):
            res.violate("not_finite:zero_residual", "dynamic calibration with an exactly vanishing residual returns NaN", known="F8")
            return res
        res.violate("not_finite", f"adaptive solve returned non-finite values ({cfg['family']}, rtol={sc['rtol']:.1e})")
        return res
    ends = [t + h for t, h in steps0]
    k = min(case["which_step"], len(ends))
    tk = ends[-k]
    dl = {"0": 0.0, "+1e-15": 1e-15, "-1e-15": -1e-15, "+1e-10": 1e-10, "-1e-10": -1e-10, "+1e-6": 1e-6, "-1e-6": -1e-6,
          "+1.5eps": 1.5 * eps, "-1.5eps": -1.5 * eps, "+0.9eps": 0.9 * eps, "-0.9eps": -0.9 * eps}[case["delta"]]
    T2 = tk + dl
    if not T2 > t0 + 1e-3:
        T2 = T
    if cfg["terminal"]:
        res.label("terminal_values")
        save_at = np.asarray([t0, T2])
    else:
        f1, f2 = case["fracs"]
        if f2 - f1 < 0.05:  # nearly coinciding checkpoints are C05's subject (and finding F15), not C01's
            f2 = min(0.95, f1 + 0.05)
        save_at = np.asarray([t0, t0 + f1 * (T2 - t0), t0 + f2 * (T2 - t0), T2])
        if cfg.get("dense_ckpt"):
            res.label("dense_checkpoints")
            save_at = np.linspace(t0, T2, 14)
    out, ev = ssmcase.run_save_at(sc, save_at)
    steps, errs = sk.accepted_steps(ev)
    n_rej = sum(1 for e in errs if e[3] < 1.0)
    last_end = steps[-1][0] + steps[-1][1] if steps else t0
    clipped = bool(cfg.get("clip", cfg["terminal"])) and abs(last_end - T2) <= eps
    overstepped = last_end > T2 + eps
    if cfg.get("dense_ckpt") and len(steps) < len(save_at) - 2:
        res.label("several_checkpoints_in_one_step")
    if clipped or overstepped or any(e[0] == "interp_at" for e in ev):
        res.label("clip_branch")
    res.nontrivial = n_rej >= 1 or clipped or overstepped
    mean = np.asarray(out["mean"], float)
    if cfg["terminal"]:
        mean = mean.reshape(1, -1)
        times = np.asarray([T2])
        if abs(float(np.asarray(out["t"]).reshape(-1)[-1]) - T2) > eps:
            res.violate("time", f"terminal-value routine reports t={out['t']} for the requested {T2}")
    else:
        times = save_at
        if np.max(np.abs(np.asarray(out["t"]) - save_at)) > eps:
            res.violate("time", "reported times differ from the requested ones by more than eps")
    if not np.all(np.isfinite(mean)):
        if _known_f8(cfg, field, C, inits, t0):
            res.violate("not_finite:zero_residual", "dynamic calibration with an exactly vanishing residual returns NaN", known="F8")
        else:
            res.violate("not_finite", f"adaptive solve returned non-finite values ({cfg['family']}, rtol={sc['rtol']:.1e})")
        return res
    ref_times = times if times[0] > t0 else times[1:]
    ref = _reference(field, C, inits, t0, ref_times)
    u = mean[-len(ref_times):, :d]
    ratio = float(np.max(np.abs(u - ref) / (sc["atol"] + sc["rtol"] * np.abs(ref))))
    res.metric("error/(atol+rtol|u|)", ratio)
    import os
    if os.environ.get("VERIF_C01_DUMP"):
        with open(os.environ["VERIF_C01_DUMP"], "a") as f:
            f.write(common.jdump(dict(ratio=ratio, family=cfg["family"], n=cfg["n"], lin=cfg["lin"], fact=cfg["fact"], calib=cfg["calib"], strategy=cfg["strategy"],
                                      rtol=sc["rtol"], dt0=sc["dt0"], steps=len(steps), rej=n_rej, last_dt=steps[-1][1] if steps else None, prev_dt=steps[-2][1] if len(steps) > 1 else None, delta=case["delta"], terminal=cfg["terminal"], clip=cfg.get("clip"), T=T2 - t0)) + "\n")
    # at the tightest tolerances the error is floored by float64 itself (measured up to 52 at rtol = 1e-9)
    kb = K_BOUND if sc["rtol"] > 2e-9 else 5 * K_BOUND
    tiny_last = len(steps) >= 2 and steps[-1][1] < 1e-3 * steps[-2][1]
    if tiny_last:
        res.label("tiny_clipped_last_step")
    if not ratio <= kb and tiny_last:
        # Finding F15: a final step clipped to a tiny remainder (barely more than eps) destroys the state
        res.violate("tolerance:tiny_last_step", f"error is {ratio:.1f} x (atol + rtol |u|) after a clipped final step of {steps[-1][1]:.2e} "
                    f"(previous step {steps[-2][1]:.2e}); {cfg['family']}, n={cfg['n']}, {cfg['fact']}/{cfg['calib']}/{cfg['strategy']}/{cfg['lin']}", known="F15")
        return res
    if not ratio <= kb:
        res.violate("tolerance" + (":gross" if ratio > 100 * kb else ""),
                    f"error is {ratio:.1f} x (atol + rtol |u|) (> {kb:.0f}) for {cfg['family']}, n={cfg['n']}, {cfg['fact']}/{cfg['calib']}/{cfg['strategy']}/{cfg['lin']}, "
                    f"rtol={sc['rtol']:.1e}, T=step end {case['delta']}, {'terminal' if cfg['terminal'] else 'save_at'} clip={cfg.get('clip')}")
    return res


def _convergence(res, case, field, C, inits, t0, T):
    cfg = case["cfg"]
    n, d = cfg["n"], cfg["d"]
    T = min(T, t0 + 1.0)
    levels = [case["N0"] * 2**j for j in range(4)]
    errs, hs = [], []
    ref_end = _reference(field, C, inits, t0, [t0 + 0.5 * (T - t0), T])
    scale = max(1.0, float(np.max(np.abs(ref_end))))
    for N in levels:
        grid = np.linspace(t0, T, N + 1)
        sc = _as_case(case, field, C, inits, t0, T)
        sc["cfg"] = {**cfg, "num_steps": N}
        sc["incs"] = list(np.diff(grid))
        out = ssmcase.run_library(sc)
        mean = np.asarray(out["mean"], float)
        if not np.all(np.isfinite(mean)):
            h_ = (T - t0) / N
            if _known_f8(cfg, field, C, inits, t0) or (cfg["calib"].startswith("dynamic") and h_ ** max(n - cfg["order"], 1) < 1e-8):
                res.violate("not_finite:zero_residual", "dynamic calibration with an exactly (or to rounding) vanishing residual returns NaN", known="F8")
            else:
                res.violate("convergence:not_finite", f"fixed-grid solve with {N} steps is not finite")
            return res
        e_end = float(np.max(np.abs(mean[-1, :d] - ref_end[1])))
        e_mid = float(np.max(np.abs(mean[N // 2, :d] - ref_end[0])))
        errs.append(max(e_end, e_mid) if cfg["strategy"] != "filter" else e_end)
        hs.append((T - t0) / N)
    errs, hs = np.asarray(errs), np.asarray(hs)
    usable = (errs > 1e-11 * scale) & (errs < 1e-2 * scale)
    # drop the coarsest levels until the remaining ones are monotone (asymptotic regime)
    idx = [i for i in range(4) if usable[i]]
    res.nontrivial = len(idx) >= 3
    res.metric("levels_usable", len(idx))
    if len(idx) < 2:
        raise common.Inconclusive("fewer than two refinement levels inside the asymptotic window [1e-11, 1e-2]")
    if len(idx) < 3:
        raise common.Inconclusive("fewer than three refinement levels inside the asymptotic window")
    # pairwise observed orders between consecutive levels; pre-asymptotic wiggles are common, an order
    # collapse (e.g. to 1, finding F1) shows in *every* pair - so the best pair is what must reach the order
    pair = [float(np.log(errs[a] / errs[b]) / np.log(hs[a] / hs[b])) for a, b in zip(idx[:-1], idx[1:])]
    order = max(pair)
    fit = float(np.polyfit(np.log(hs[idx]), np.log(errs[idx]), 1)[0])
    res.metric("order_deficit", max(0.0, n - order))
    # second-order ODEs: the zeroth coefficient is one integration further from the constrained one;
    # measured orders are n - 1 there, so only that is required (documented in DESIGN.md)
    need = min(n - 2.0, 3.0) if field.order == 1 else min(n - 3.0, 2.5)
    if min(pair) < 1.0 <= order:
        raise common.Inconclusive("refinement levels are not monotone yet (pre-asymptotic)")
    if order < need:
        res.violate("convergence:order" + (":gross" if order < need - 1.4 else ""),
                    f"observed orders {[round(p_, 2) for p_ in pair]} (fit {fit:.2f}) stay below {need:.1f} on h = {hs[idx].tolist()} (errors {errs[idx].tolist()}) for {cfg['family']}, "
                    f"{cfg['fact']}/{cfg['calib']}/{cfg['strategy']}/{cfg['lin']}")
    return res


def pinned_cases(ctx):
    import json
    import os

    if ctx.shard != 0:
        return []
    out = []
    kdir = os.path.join(common.VERIF, "replays", "known")
    for name in sorted(os.listdir(kdir)) if os.path.isdir(kdir) else []:
        if name.startswith("C01_"):
            with open(os.path.join(kdir, name)) as f:
                out.append((name, json.load(f)["case"]))
    return out
