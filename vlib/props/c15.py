"""C15 - results are invariant under pytree structure, permutation, jit and vmap."""

import collections

import numpy as np
from hypothesis import strategies as st

from vlib import common, gen, lib, ssmcase
from vlib import solverkit as sk
from vlib.polyfield import PolyField

ID = "C15"
BUDGET = {"quick": 192, "thorough": 6000}
LEVEL = "exploration"
TECHNIQUE = "property-based metamorphic testing (Hypothesis): pytree-vs-flat, permuted-vs-original, jitted-vs-eager, vmapped-vs-single solves"
LEVEL_TEXT = (
    "Generated problems wrapped into nested dict / tuple / namedtuple / bare-array states with leaves of rank 0..3 (including matrix- and tensor-valued leaves with several non-unit axes), permutations of up to 6 components, "
    "batches of 2-4 parameter sets whose members need 1x..10x different step counts, three factorisations, fixed-grid and adaptive "
    "routines, filter and smoothers. (a) The pytree solve must equal the flattened solve numerically and return means/standard deviations "
    "in the caller's structure with a leading time axis of the requested length; (b) permuting components permutes the solution; (c) "
    "jit(solve) equals the un-jitted solve; (d) vmap(solve)(batch)[i] equals solve(batch[i]) - finite always, values to 1e-5 when the "
    "step counts coincide, otherwise within the tolerance-level bound."
    " (e) jit_sequence: one jax.jit(solve) whose only structured argument is the prior is called on two problems of equal size but different structure in a row - each call must equal the un-jitted call and return the caller's structure. Cases whose solution moves by more than 1e-8 under a 1e-13 perturbation of the inputs are inconclusive (ill-conditioned)."
)
LEVEL_NOTE = "Metamorphic oracle (the library against itself under a transformation that must not matter); tolerances 1e-6 (means) / 1e-3 (standard deviations) relative to block magnitudes for (a)-(c), 1e-5 for vmap with equal step counts."
RULE = (
    "case = (relation a|b|c|d, structure from a seeded pool, tree template, permutation, problem values, grid or tolerances, batch parameters); "
    "non-trivial = nested tree with >= 2 leaves of different rank, or batch step counts differing by >= 2x; distinct by JSON hash"
)
ASSUMPTIONS = ["jacobian_materialize(); IWP priors; x64"]
REQUIRED_LABELS = ["rel:pytree", "rel:permutation", "rel:jit", "rel:vmap", "fact:dense", "fact:isotropic", "fact:blockdiag", "adaptive", "fixed_grid", "vmap:steps_differ", "leaf:matrix", "rel:jit_sequence"]
MAX_INCONCLUSIVE = 0.3

Point = collections.namedtuple("Point", ["p", "q"])

# tree templates: (name, list of leaf shapes) - sizes add up to d
TEMPLATES = {
    2: [("dict_scalar_vec", [(), (1,)]), ("tuple_mat", [(1, 1), (1,)]), ("nt_scalars", [(), ()])],
    3: [("dict_scalar_vec", [(), (2,)]), ("tuple_mat", [(2, 1), (1,)]), ("nested", [(1,), (), (1, 1, 1)])],
    4: [("dict_scalar_vec", [(), (3,)]), ("tuple_mat", [(2, 1), (2,)]), ("nested", [(2,), (), (1, 1, 1)]), ("rank3", [(1, 2, 1), (2,)]), ("bare", [(2, 2)])],
    # leaves with two or more non-unit axes (matrix / tensor valued states): row-major vs column-major flattening differs only here
    5: [("tuple_mat", [(2, 2), (1,)]), ("dict_scalar_vec", [(), (4,)]), ("nested", [(2,), (), (1, 2, 1)]), ("rank3", [(1, 2, 2), (1,)])],
    6: [("tuple_mat", [(2, 2), (2,)]), ("bare", [(2, 3)]), ("rank3", [(2, 1, 2), (2,)]), ("nested", [(3,), (), (2, 1, 1)]), ("bare", [(1, 3, 2)]),
        ("dict_scalar_vec", [(2,), (2, 2)])],
}


# jit_sequence: two problems of equal size whose states differ in structure; ONE jitted solve is called on the first, then on the second
SEQ_PAIRS = [
    [("bare", [(2, 3)]), ("bare", [(3, 2)])],
    [("bare", [(6,)]), ("bare", [(2, 3)])],
    [("dict_scalar_vec", [(2,), (2, 2)]), ("dict_scalar_vec", [(2, 2), (2,)])],
    [("tuple_mat", [(2, 2), (2,)]), ("dict_scalar_vec", [(2, 2), (2,)])],
    [("bare", [(1, 6)]), ("bare", [(6, 1)])],
    [("rank3", [(2, 1, 2), (2,)]), ("rank3", [(1, 2, 2), (2,)])],
]


def _pack(name, shapes, v):
    import jax.numpy as jnp

    leaves, k = [], 0
    for sh in shapes:
        size = int(np.prod(sh)) if sh else 1
        leaves.append(jnp.reshape(v[k : k + size], sh))
        k += size
    if name == "bare":
        return leaves[0]
    if name == "dict_scalar_vec":
        return {"a": leaves[0], "b": leaves[1]}
    if name == "tuple_mat":
        return (leaves[0], [leaves[1]])
    if name == "nt_scalars":
        return Point(p=leaves[0], q=leaves[1])
    if name == "nested":
        return {"x": (leaves[0], leaves[1]), "y": Point(p=leaves[2], q=None)}
    return [leaves[0], {"z": leaves[1]}]


def _flatten(tree):
    import jax
    import jax.numpy as jnp

    return jnp.concatenate([jnp.reshape(x, (-1,)) for x in jax.tree.leaves(tree)])


def strategy(ctx):
    rng = ctx.rng("c15-pool")
    size = 3 if ctx.tier == "quick" else 6
    pool = []
    for _ in range(size):
        cfg = ssmcase.draw_structure(rng, strategies=("filter", "fixedinterval", "fixedpoint"), nmax=4, dmax=4, steps=(3, 6), inits=("exact", "inexact"),
                                     calibs=("none", "mle", "dynamic"), orders=(1,))
        cfg["d"] = int(rng.integers(2, 7))
        cfg["cinit"] = False
        cfg["adaptive"] = cfg["strategy"] == "fixedpoint" or bool(rng.integers(0, 2)) and cfg["strategy"] == "filter"
        if cfg["strategy"] == "fixedinterval":
            cfg["adaptive"] = False
        pool.append(cfg)

    @st.composite
    def one(draw):
        cfg = draw(st.sampled_from(pool))
        rel = draw(st.sampled_from(["pytree", "permutation", "jit", "vmap", "jit_sequence"]))
        case = draw(ssmcase.adaptive_values(cfg)) if cfg["adaptive"] or rel == "vmap" else draw(ssmcase.values(cfg, hmin=0.05, hmax=0.5))
        case["tc_mode"] = "arbitrary"  # O(1) residuals: the calibrated scales are then well conditioned
        case["rel"] = rel
        if "rtol" in case:
            # keep adaptive runs short (low orders at tight tolerances need 1e5+ steps; not the point here)
            floor = 1e-5 if (cfg["n"] >= 4 and rel not in ("jit", "vmap")) else 1e-3
            case["rtol"] = max(case["rtol"], floor)
            case["atol"] = max(case["atol"], floor * 0.1)
        d = cfg["d"]
        case["template"] = draw(st.integers(0, len(TEMPLATES[d]) - 1))
        case["perm"] = draw(st.permutations(list(range(d))))
        case["fracs"] = sorted(draw(st.lists(st.floats(0.05, 0.95), min_size=2, max_size=2, unique=True)))
        case["batch"] = draw(st.lists(gen.exponent(-0.3, 0.8), min_size=2, max_size=4))
        if rel == "jit_sequence":
            case["seq"] = dict(pair=draw(st.integers(0, len(SEQ_PAIRS) - 1)), swap=draw(st.booleans()), vals=draw(gen.vec(12, gen.nonzero_quarter(-4, 4))))
        return case

    return one()


_CACHE = {}


def _build_solve(cfg, mode, tree_name=None, tree_shapes=None, perm=None, adaptive=False, terminal=False):
    """Returns f(C, tc, times, damp, atol, rtol, dt0) -> dict(mean, std, t, num_steps) for the configured variant."""
    import jax
    import jax.numpy as jnp

    from probdiffeq import ivpsolve
    from probdiffeq import probdiffeq as pd

    field = sk.make_field(cfg)
    d, n, fact = cfg["d"], cfg["n"], cfg["fact"]
    P = None if perm is None else np.eye(d)[np.asarray(perm)]

    def run(C, tc, times, damp, atol, rtol, dt0):
        ssm = lib.ssm(fact)

        def f_flat(u, t):
            if P is not None:
                return jnp.asarray(P) @ field.jax_eval(C, [jnp.asarray(P).T @ u], t)
            return field.jax_eval(C, [u], t)

        if tree_name is not None:
            vf = pd.ode(lambda y, /, *, t: _pack(tree_name, tree_shapes, f_flat(_flatten(y), t)), jacobian=pd.jacobian_materialize())
            tcoeffs = [_pack(tree_name, tree_shapes, tc[i]) for i in range(n)]
        else:
            vf = pd.ode(lambda y, /, *, t: f_flat(y, t), jacobian=pd.jacobian_materialize())
            tcoeffs = [(jnp.asarray(P) @ tc[i] if P is not None else tc[i]) for i in range(n)]
        if cfg["init"] == "inexact":
            prior = ssm.prior_wiener_integrated(tcoeffs, is_exact=False, inexact_eps=1e-3)
        else:
            prior = ssm.prior_wiener_integrated(tcoeffs)
        constraint = sk.make_constraint(ssm, cfg, vf)
        solver = sk.make_solver(ssm, cfg, constraint, None)
        if adaptive:
            error = pd.error_residual_std(constraint=sk.make_constraint(ssm, cfg, vf))
            if terminal:
                sol = ivpsolve.solve_adaptive_terminal_values(solver, error)(prior, t0=times[0], t1=times[-1], atol=atol, rtol=rtol, dt0=dt0, damp=damp)
            else:
                sol = ivpsolve.solve_adaptive_save_at(solver=solver, error=error, warn=False)(prior, save_at=times, atol=atol, rtol=rtol, dt0=dt0, damp=damp)
        else:
            sol = ivpsolve.solve_fixed_grid(solver=solver)(prior, grid=times, damp=damp)
        return dict(mean=sol.u.mean, std=sol.u.std, t=sol.t, num_steps=sol.num_steps, scale=sol.output_scale)

    return run


def _times(case):
    cfg = case["cfg"]
    field, C, tc, grid, base_vec = ssmcase.case_arrays(case)
    if cfg["adaptive"] or case["rel"] == "vmap":
        t0, T = float(grid[0]), float(grid[-1])
        times = np.asarray([t0] + [t0 + f * (T - t0) for f in case["fracs"]] + [T])
    else:
        times = grid
    return field, C, tc, times


def _rel_err(a, b, floor=1e-12):
    a, b = np.asarray(a, float), np.asarray(b, float)
    if a.shape != b.shape:
        return np.inf
    if not (np.all(np.isfinite(a)) and np.all(np.isfinite(b))):
        return np.inf
    scale = max(float(np.max(np.abs(b))), floor)
    return float(np.max(np.abs(a - b))) / scale


def check_case(case):
    import jax
    import jax.numpy as jnp

    res = common.Result()
    cfg = case["cfg"]
    rel, fact, n, d = case["rel"], cfg["fact"], cfg["n"], cfg["d"]
    adaptive = bool(cfg["adaptive"]) or rel == "vmap"
    res.label(f"rel:{rel}", f"fact:{fact}", "adaptive" if adaptive else "fixed_grid", f"strategy:{cfg['strategy']}")
    if rel == "jit_sequence":
        return _jit_sequence(res, case)
    field, C, tc, times = _times(case)
    if adaptive:
        # adaptive runs must terminate: drop the quadratic terms (finite-time blow-up would make the
        # step size collapse; termination is not what C15 is about)
        C = np.asarray(C, float).copy()
        for m_, a_ in enumerate(field.alpha):
            if sum(a_[: field.nvars - 1]) >= 2:
                C[:, m_] = 0.0
    args = (jnp.asarray(C), jnp.asarray(tc), jnp.asarray(times), float(case["damp"]), float(case.get("atol", 1e-4)), float(case.get("rtol", 1e-4)), float(case.get("dt0", 0.1)))
    N = len(times)

    def run(key, **kw):
        k = (sk.structure_key(cfg), key, adaptive, N)
        if k not in _CACHE:
            _CACHE[k] = jax.jit(_build_solve(cfg, key, adaptive=adaptive, **kw))
        with common.lib_call(f"solve[{key}]"):
            return jax.tree.map(np.asarray, _CACHE[k](*args))

    base = run("flat")
    base_mean = np.stack([np.asarray(m) for m in base["mean"]], axis=1)  # (N, n, d)
    if not np.all(np.isfinite(base_mean)):
        raise common.Inconclusive("solve not finite (method limit at this tolerance)")
    base_std = base["std"]
    # conditioning of the problem itself: the same compiled solve on inputs perturbed by 1e-13 (relative). A case whose solution
    # moves by more than 1% of the comparison tolerance under such a perturbation (diverging solves with calibrated scales of 1e12,
    # borderline accept/reject decisions) cannot distinguish a defect from rounding and is inconclusive.
    pat = 1.0 + 1e-13 * np.where(np.arange(np.asarray(tc).size).reshape(np.asarray(tc).shape) % 2 == 0, 1.0, -1.0)
    args_p = (args[0] * (1.0 + 1e-13), jnp.asarray(np.asarray(tc) * pat)) + args[2:]
    k0 = (sk.structure_key(cfg), "flat", adaptive, N)
    with common.lib_call("solve[flat, perturbed]"):
        base_p = jax.tree.map(np.asarray, _CACHE[k0](*args_p))
    base_p_mean = np.stack([np.asarray(m) for m in base_p["mean"]], axis=1)
    if not np.array_equal(base_p["num_steps"], base["num_steps"]):
        raise common.Inconclusive("ill-conditioned case: a 1e-13 perturbation of the inputs changes the number of steps")
    cond = max(_rel_err(base_p_mean[:, i], base_mean[:, i]) for i in range(n))
    res.metric("conditioning(1e-13 perturbation)", cond)
    if not cond <= 1e-8:
        raise common.Inconclusive("ill-conditioned case: a 1e-13 perturbation of the inputs changes the solution by more than 1e-8")
    # standard deviations that are zero in exact arithmetic (noise-free observed coefficients) are
    # rounding noise: compare them relative to the magnitude of the coefficient's mean
    floors = [1e-9 * (1.0 + float(np.max(np.abs(base_mean[:, i])))) for i in range(n)]
    # a calibrated scale that is numerically zero (exactly vanishing residuals) is rounding noise: the
    # standard deviations derived from it are not comparable across execution modes (F8 class)
    sc = np.asarray(base["scale"], float)
    sc = sc[1:] if (cfg["calib"].startswith("dynamic") and sc.shape[0] == N) else sc
    std_ok = cfg["calib"] == "none" or (sc.size > 0 and float(np.min(sc)) > 1e-7)
    if not std_ok:
        res.label("std_skipped_zero_scale")

    if rel == "pytree":
        name, shapes = TEMPLATES[d][case["template"]]
        matrix_leaf = any(sum(1 for k in sh if k > 1) >= 2 for sh in shapes)
        if matrix_leaf:
            res.label("leaf:matrix")
        res.nontrivial = len({len(s) for s in shapes}) >= 2 or matrix_leaf
        out = run(f"tree:{name}", tree_name=name, tree_shapes=shapes)
        # structure: same tree structure as the state, leading time axis of the requested length
        template = _pack(name, shapes, jnp.zeros((d,)))
        tdef = jax.tree.structure(template)
        for i in range(n):
            if jax.tree.structure(out["mean"][i]) != tdef:
                res.violate("pytree:mean_structure", f"mean of coefficient {i} has structure {jax.tree.structure(out['mean'][i])}, state has {tdef}")
                return res
            for leaf, proto in zip(jax.tree.leaves(out["mean"][i]), jax.tree.leaves(template)):
                if np.shape(leaf) != (N,) + np.shape(proto):
                    res.violate("pytree:mean_shape", f"mean leaf has shape {np.shape(leaf)}, expected {(N,) + np.shape(proto)}")
                    return res
            if fact == "isotropic":
                if np.shape(out["std"][i]) != (N,):
                    res.violate("pytree:std_shape", f"isotropic std of coefficient {i} has shape {np.shape(out['std'][i])}, expected {(N,)}")
            else:
                if jax.tree.structure(out["std"][i]) != tdef:
                    res.violate("pytree:std_structure", f"std of coefficient {i} has structure {jax.tree.structure(out['std'][i])}, state has {tdef}")
                    return res
        tree_mean = np.stack([np.concatenate([np.reshape(x, (N, -1)) for x in jax.tree.leaves(out["mean"][i])], axis=1) for i in range(n)], axis=1)
        e = max(_rel_err(tree_mean[:, i], base_mean[:, i]) for i in range(n))
        res.metric("pytree:mean/tol", e / 1e-6)
        if not e <= 1e-6:
            res.violate("pytree:mean" + (":gross" if e > 1e-4 else ""), f"pytree solve differs from the flattened solve by {e:.3e}")
        if fact == "isotropic":
            es = max(_rel_err(out["std"][i], base_std[i], floors[i]) for i in range(n))
        else:
            es = max(_rel_err(np.concatenate([np.reshape(x, (N, -1)) for x in jax.tree.leaves(out["std"][i])], axis=1), base_std[i], floors[i]) for i in range(n))
        res.metric("pytree:std/tol", es / 1e-3)
        if std_ok and not es <= 1e-3:
            res.violate("pytree:std" + (":gross" if es > 1e-3 else ""), f"pytree solve: standard deviations differ from the flattened solve by {es:.3e}")
        if not np.array_equal(out["num_steps"], base["num_steps"]):
            res.violate("pytree:num_steps", "pytree solve takes a different number of steps than the flattened solve")

    elif rel == "permutation":
        perm = list(case["perm"])
        res.nontrivial = perm != sorted(perm)
        out = run(f"perm:{perm}", perm=perm)
        pm = np.stack([np.asarray(m) for m in out["mean"]], axis=1)
        e = max(_rel_err(pm[:, i], base_mean[:, i][:, perm]) for i in range(n))
        tol = 1e-9 if np.array_equal(out["num_steps"], base["num_steps"]) else None
        if tol is None:
            raise common.Inconclusive("permuted adaptive run takes a different number of steps (borderline acceptance)")
        res.metric("permutation:mean/tol", e / 1e-6)
        if not e <= 1e-6:
            res.violate("permutation:mean" + (":gross" if e > 1e-4 else ""), f"permuting the components does not permute the solution (diff {e:.3e})")
        if fact != "isotropic":
            es = max(_rel_err(out["std"][i], np.asarray(base_std[i])[:, perm], floors[i]) for i in range(n))
            res.metric("permutation:std/tol", es / 1e-3)
            if std_ok and not es <= 1e-3:
                res.violate("permutation:std", f"permuting the components does not permute the standard deviations (diff {es:.3e})")

    elif rel == "jit":
        res.nontrivial = True
        fn = _build_solve(cfg, "flat", adaptive=adaptive)
        with common.lib_call("solve[unjitted]"):
            out = jax.tree.map(np.asarray, fn(*args))
        pm = np.stack([np.asarray(m) for m in out["mean"]], axis=1)
        if not np.array_equal(out["num_steps"], base["num_steps"]):
            raise common.Inconclusive("un-jitted adaptive run takes a different number of steps (borderline acceptance)")
        e = max(_rel_err(pm[:, i], base_mean[:, i]) for i in range(n))
        res.metric("jit:mean/tol", e / 1e-6)
        if not e <= 1e-6:
            res.violate("jit:mean" + (":gross" if e > 1e-4 else ""), f"jit(solve) differs from the un-jitted solve by {e:.3e}")
        es = max(_rel_err(out["std"][i], base_std[i], floors[i]) for i in range(n))
        if std_ok and not es <= 1e-3:
            res.violate("jit:std", f"jit(solve): standard deviations differ from the un-jitted solve by {es:.3e}")

    else:  # vmap over a batch of problems with different stiffness (=> different step counts)
        scales = [10.0**e for e in case["batch"]]
        Cb = jnp.stack([jnp.asarray(C) * s for s in scales])
        fn = _build_solve(cfg, "flat", adaptive=True, terminal=cfg["strategy"] == "fixedinterval")
        k = (sk.structure_key(cfg), "vmap", len(scales), N)
        if k not in _CACHE:
            _CACHE[k] = (jax.jit(jax.vmap(fn, in_axes=(0,) + (None,) * 6)), jax.jit(fn))
        vm, single = _CACHE[k]
        with common.lib_call("vmap(solve)"):
            outb = jax.tree.map(np.asarray, vm(Cb, *args[1:]))
        singles = []
        with common.lib_call("solve(single)"):
            for i in range(len(scales)):
                singles.append(jax.tree.map(np.asarray, single(Cb[i], *args[1:])))
        counts = [int(np.max(s["num_steps"])) for s in singles]
        if max(counts) >= 2 * max(1, min(counts)):
            res.label("vmap:steps_differ")
        res.nontrivial = max(counts) >= 2 * max(1, min(counts))
        for i, s in enumerate(singles):
            sm = np.stack([np.asarray(m) for m in s["mean"]], axis=-2)
            bm = np.stack([np.asarray(m)[i] for m in outb["mean"]], axis=-2)
            if not np.all(np.isfinite(sm)):
                continue  # the single solve itself is beyond the method's reach
            if not np.all(np.isfinite(bm)):
                res.violate("vmap:not_finite", f"batched member {i} is not finite although the single solve is ({counts} steps)")
                continue
            same = np.array_equal(np.asarray(outb["num_steps"])[i], s["num_steps"])
            e = _rel_err(bm, sm)
            if same:
                # equal step counts, but step *sizes* carry the rounding jitter of the batched QR: the
                # admissible difference scales with the requested tolerance
                vt = max(1e-5, 0.2 * float(case.get("rtol", 1e-4)))
                res.metric("vmap:mean/tol", e / vt)
                if not e <= vt:
                    res.violate("vmap:mean" + (":gross" if e > 1e-2 else ""), f"vmap(solve)[{i}] differs from solve(batch[{i}]) by {e:.3e} with equal step counts")
            else:
                res.label("vmap:steps_flip")
                bound = 200.0 * (float(case.get("atol", 1e-4)) + float(case.get("rtol", 1e-4)) * float(np.max(np.abs(sm[..., 0, :]))))
                du = float(np.max(np.abs(bm[..., 0, :] - sm[..., 0, :])))
                if not du <= bound:
                    res.violate("vmap:mean_flip", f"vmap(solve)[{i}] and solve(batch[{i}]) take different step counts and differ by {du:.3e} (> {bound:.1e})")
    return res


def _jit_sequence(res, case):
    """One compiled solve, called on a sequence of problems: `solve = jax.jit(f); solve(prior_A, ...); solve(prior_B, ...)` - the way the
    documentation uses the solvers (the prior / initial condition is an *argument* of the compiled function). Every call must equal the
    un-jitted call on the same problem and return the caller's structure."""
    import jax
    import jax.numpy as jnp

    from probdiffeq import ivpsolve
    from probdiffeq import probdiffeq as pd

    cfg = case["cfg"]
    fact, n = cfg["fact"], cfg["n"]
    pair = SEQ_PAIRS[case["seq"]["pair"]]
    if case["seq"]["swap"]:
        pair = pair[::-1]
    vals = np.asarray(case["seq"]["vals"], float)
    u0_flat, k_flat = vals[:6] * 0.5, 0.25 + np.abs(vals[6:]) * 0.25
    grid = jnp.asarray(np.asarray([0.0, 0.1, 0.25, 0.3, 0.5]))
    ssm = lib.ssm(fact)
    res.nontrivial = True
    res.label("jit_sequence:" + ("same_treedef" if pair[0][0] == pair[1][0] else "other_treedef"))

    def like(y, kflat):
        """kflat (6,) arranged like the state y (structure-generic: the prior is the only structured argument of the compiled solve)."""
        leaves, tdef = jax.tree.flatten(y)
        out, pos = [], 0
        for x in leaves:
            out.append(jnp.reshape(kflat[pos : pos + x.size], x.shape))
            pos += x.size
        return jax.tree.unflatten(tdef, out)

    def solve(prior, kflat, grid):
        vf = pd.ode(lambda y, /, *, t: jax.tree.map(lambda yy, kk: -kk * yy + jnp.sin(t), y, like(y, kflat)), jacobian=pd.jacobian_materialize())
        constraint = sk.make_constraint(ssm, cfg, vf)
        solver = sk.make_solver(ssm, cfg, constraint, None)
        strat_ok = cfg["strategy"] if cfg["strategy"] != "fixedpoint" else "filter"
        del strat_ok
        sol = ivpsolve.solve_fixed_grid(solver=solver)(prior, grid=grid)
        return sol.u.mean, sol.u.std, sol.output_scale

    jsolve = jax.jit(solve)
    outs = []
    with common.lib_call("jit(solve) on a sequence of problems"):
        for name, shapes in pair:
            u0, kt = _pack(name, shapes, jnp.asarray(u0_flat)), _pack(name, shapes, jnp.asarray(k_flat))
            vf0 = pd.ode(lambda y, /, *, t, kt=kt: jax.tree.map(lambda yy, kk: -kk * yy + jnp.sin(t), y, kt), jacobian=pd.jacobian_materialize())
            tcoeffs, _ = pd.jetexpand_ode_padded_scan(num=n - 1)(vf0, (u0,), t=grid[0])
            prior = ssm.prior_wiener_integrated(list(tcoeffs))
            outs.append((name, shapes, u0, prior, kt, jax.tree.map(np.asarray, jsolve(prior, jnp.asarray(k_flat), grid))))
    N = int(grid.shape[0])
    for name, shapes, u0, prior, kt, (mean_j, std_j, scale_j) in outs:
        tdef = jax.tree.structure(u0)
        for i in range(n):
            if jax.tree.structure(mean_j[i]) != tdef:
                res.violate("jit_sequence:structure", f"compiled solve returned structure {jax.tree.structure(mean_j[i])} for a state of structure {tdef}")
                return res
            for leaf, proto in zip(jax.tree.leaves(mean_j[i]), jax.tree.leaves(u0)):
                if np.shape(leaf) != (N,) + np.shape(proto):
                    res.violate("jit_sequence:shape", f"compiled solve returned a mean leaf of shape {np.shape(leaf)} for a state leaf of shape {np.shape(proto)} "
                                f"(sequence {[p_[1] for p_ in pair]})")
                    return res
        with common.lib_call("solve (un-jitted)"):
            mean_e, std_e, scale_e = jax.tree.map(np.asarray, solve(prior, jnp.asarray(k_flat), grid))
        flat = lambda m: np.stack([np.concatenate([np.reshape(x, (N, -1)) for x in jax.tree.leaves(m[i])], axis=1) for i in range(n)], axis=1)  # noqa: E731
        e = _rel_err(flat(mean_j), flat(mean_e))
        res.metric("jit_sequence:mean/tol", e / 1e-6)
        if not e <= 1e-6:
            res.violate("jit_sequence:mean" + (":gross" if e > 1e-4 else ""), f"jit(solve) on the {'second' if (name, shapes) == tuple(pair[1]) else 'first'} problem of the sequence "
                        f"{[p_[1] for p_ in pair]} differs from the un-jitted solve by {e:.3e}")
        # the initial value must come back as the first row
        e0 = _rel_err(flat(mean_j)[0, 0], u0_flat)
        if not e0 <= 1e-9:
            res.violate("jit_sequence:initial_value", f"first row of the compiled solve is not the initial value (diff {e0:.3e})")
    return res
