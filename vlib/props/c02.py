"""C02 - the filter posterior equals the textbook extended Kalman filter."""

import numpy as np

from vlib import common, ssmcase

ID = "C02"
BUDGET = {"quick": 1280, "thorough": 30000}
LEVEL = "exploration"
TECHNIQUE = "property-based differential testing (Hypothesis) against an independent covariance-form EKF in NumPy/mpmath"
LEVEL_TEXT = (
    "Generated-input search: random polynomial vector fields (order 1/2, explicit t), random increasing grids, the full "
    "configuration product (3 factorisations x 5 calibration variants x TS0/TS1 x 2..9 coefficients x exact/inexact/per-leaf/"
    "diffuse initial states x damping x base scales x optional initial-constraint update) compared at every grid point with a "
    "textbook EKF written from the mathematics (exact IWP transitions, documented Jacobian reductions, documented calibration "
    "estimators). Exploration fits: the claim is numerical equality with a cheap, independent reference over a continuous domain."
)
LEVEL_NOTE = (
    "Trusted: NumPy float64 (n <= 5) / mpmath 50 digits (n >= 6) reference; tolerance schedule tau(n, h_min) from 1e-9 to 1e-5. "
    "Cases whose reference blows up (>1e6) or whose dynamic scale is exactly zero (textbook update undefined) are counted as inconclusive."
)
RULE = (
    "structures drawn per shard from the configuration product (seeded pool), values by Hypothesis; non-trivial = >= 3 steps and "
    "(n >= 4 or TS1 or calibrated); distinct by JSON hash"
)
ASSUMPTIONS = ["jacobian_materialize() handler (exact Jacobians); IWP priors; x64"]
REQUIRED_LABELS = ["fact:dense", "fact:isotropic", "fact:blockdiag", "lin:ts1", "lin:implicit", "calib:mle", "calib:dynamic", "n>=6", "prior:iwp"]
MAX_INCONCLUSIVE = 0.4


def strategy(ctx):
    rng = ctx.rng("c02-pool")
    size = 3 if ctx.tier == "quick" else 6  # thorough: many rounds of fresh worker processes, each with its own small pool
    pool = [ssmcase.draw_structure(rng, lins=("ts0", "ts1", "ts1", "residual")) for _ in range(size)]
    # exponential priors (integrated Ornstein-Uhlenbeck, Matern) exist for the dense model
    cfg = ssmcase.draw_structure(rng, facts=("dense",), nmax=4, dmax=2, inits=("exact", "inexact"), steps=(2, 4))
    cfg["prior"] = str(rng.choice(["ou", "matern"]))
    cfg["cinit"] = False
    pool.append(cfg)
    # implicit residuals r(u, u', [u''], t) = 0 whose Jacobian w.r.t. the highest derivative is not the identity
    # (constraint_residual with residual_velocity / residual_acceleration)
    cfg = ssmcase.draw_structure(rng, nmax=6, steps=(2, 8), lins=("implicit",))
    cfg["cinit"] = False
    pool.append(cfg)
    return ssmcase.strategy_from_pool(pool)


def check_case(case):
    res = common.Result()
    cfg = case["cfg"]
    n, d = cfg["n"], cfg["d"]
    res.label(f"fact:{cfg['fact']}", f"lin:{cfg['lin']}", f"calib:{cfg['calib'].split('_')[0]}", f"init:{cfg['init']}")
    if n >= 6:
        res.label("n>=6")
    res.label(f"prior:{cfg.get('prior', 'iwp')}")
    if cfg.get("cinit"):
        res.label("cinit")
    if case["damp"] > 0:
        res.label("damp>0")
    res.nontrivial = cfg["num_steps"] >= 3 and (n >= 4 or cfg["lin"] != "ts0" or cfg["calib"] != "none")

    ref = ssmcase.run_reference(case, mp=True)
    out = ssmcase.run_library(case)
    grid = ref["grid"]
    pert = ssmcase.perturbed_reference(case)
    if out["t"].shape != grid.shape or np.max(np.abs(out["t"] - grid)) > 1e-12 * (1 + np.max(np.abs(grid))):
        res.violate("times", "solution.t differs from the requested grid")
    nm, nc = ssmcase.compare_marginals(res, "filter", case, out["mean"], out["cov"], ref, pert)
    if nm == 0:
        raise common.Inconclusive("every coefficient block is beyond float64's reach for this case")
    sev = lambda e, t: ":gross" if not e <= 1e4 * t else ""
    if pert is None:
        asc = np.inf
    else:
        sr, sp = np.asarray(ref["scale"], float), np.asarray(pert["scale"], float)
        asc = float(np.max(np.abs(sp - sr) / np.maximum(np.abs(sr), 1e-300)))
    tol = max(ssmcase.TOL0, ssmcase.FACTOR * asc)
    # output scale
    sc_lib = np.asarray(out["scale"], float)
    sc_ref = np.asarray(ref["scale"], float)
    if not cfg["calib"].startswith("dynamic"):
        sc_ref = sc_ref[1:]  # one entry per step (the initial state carries no calibrated scale)
    if sc_lib.shape != sc_ref.shape:
        res.violate("scale:shape", f"output_scale shape {sc_lib.shape} vs {sc_ref.shape}")
    else:
        lo = 1 if cfg["calib"].startswith("dynamic") else 0
        es = float(np.max(np.abs(sc_lib[lo:] - sc_ref[lo:]) / np.maximum(np.abs(sc_ref[lo:]), 1e-300)))
        if tol > ssmcase.SKIP:
            res.label("illcond:scale")
        res.metric("scale/tol", es / (10 * tol) if tol <= ssmcase.SKIP else 0.0)
        if tol <= ssmcase.SKIP and not es <= 10 * tol:
            res.violate("scale" + sev(es, 10 * tol), f"output scale differs by {es:.3e}")
    return res
