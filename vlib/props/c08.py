"""C08 - Gaussian conditional algebra is exact in every factorisation.

Generated: a Gaussian x, one or two conditionals with diagonal scalings, an operation.
Oracle: dense formulas on the embedding (isotropic: kron(., I_d); blockdiag: block scatter),
written in NumPy and sharing no code with the library. `revert` is checked through the
joint law of (x, y), which is well defined for singular covariances.
"""

import numpy as np
import scipy.linalg
from hypothesis import strategies as st

from vlib import common, gen, lib

ID = "C08"
BUDGET = {"quick": 8000, "thorough": 160000}
RULE = (
    "case = (factorisation, op, shapes n_in/n_out/d, Gaussian x, conditional(s), scalings 10^U(-12,12), data); "
    "non-trivial = scalings span >= 3 decades and offset != 0; distinct by JSON hash of the case"
)
ASSUMPTIONS = [
    "float64; tolerance 1e-9 on correlation-normalised covariances / condition-aware means, x cond(core) for ill-conditioned classes",
    "triangular solves are only paired with non-singular observed covariances (as in every library call site); "
    "singular observed covariances use the least-squares solve",
]
REQUIRED_LABELS = ["singular", "fact:dense", "fact:isotropic", "fact:blockdiag", "op:revert", "op:merge", "obs_rows:1", "obs_rows:n"]

OPS = ["marginalise", "revert", "merge", "apply_flat", "precon", "bayes", "normal", "identity", "vmap"]
TOL = 1e-9


@st.composite
def _case(draw):
    fact = draw(st.sampled_from(gen.FACTS))
    op = draw(st.sampled_from(OPS))
    n_in = draw(st.one_of(st.integers(1, 5), st.integers(1, 9)))  # up to 9 coefficients (the property's bound), small ones more often
    n_out = draw(st.one_of(st.just(1), st.just(n_in), st.integers(1, n_in)))
    d = draw(st.one_of(st.integers(1, 3), st.integers(1, 5)))
    if op in ("merge",):
        n_mid = draw(st.integers(1, 5))
    else:
        n_mid = n_out
    if op == "identity":
        n_out = n_in

    def shapes(n_o, n_i):
        if fact == "dense":
            return dict(A=(n_o * d, n_i * d), b=(n_o * d,), L=(n_o * d, n_o * d), tl=(n_i * d,), to=(n_o * d,))
        if fact == "isotropic":
            return dict(A=(n_o, n_i), b=(n_o, d), L=(n_o, n_o), tl=(n_i,), to=(n_o,))
        return dict(A=(d, n_o, n_i), b=(d, n_o), L=(d, n_o, n_o), tl=(d, n_i), to=(d, n_o))

    def arr(shape, elem=None):
        size = int(np.prod(shape)) if len(shape) else 1
        flat = draw(gen.vec(size, elem))
        return np.asarray(flat, float).reshape(shape).tolist()

    spread = draw(st.sampled_from([0.0, 1.0, 4.0, 12.0]))

    def scal(shape):
        e = gen.exponent(-spread, spread) if spread > 0 else st.just(0.0)
        return arr(shape, e)

    # singular structure of Cholesky factors: column masks (0 = dropped) and column decades
    def chol(shape, kind):
        L = np.asarray(arr(shape), float)
        L = np.tril(L) if draw(st.booleans()) else L
        ncol = shape[-1]
        if kind == "zero":
            L = L * 0.0
        elif kind == "rankdef":
            mask = np.asarray(draw(gen.vec(ncol, st.integers(0, 1))), float)
            mask[draw(st.integers(0, ncol - 1))] = 0.0
            L = L * mask
        elif kind == "ill":
            dec = np.asarray(draw(gen.vec(ncol, st.integers(-8, 0))), float)
            L = L * 10.0**dec
        else:  # well conditioned by construction: add a dominant diagonal
            eye = np.eye(shape[-1]) * 3.0
            L = np.tril(L) + eye
        return L.tolist()

    kind_x = draw(st.sampled_from(["well", "well", "ill", "rankdef", "zero"]))
    kind_q = draw(st.sampled_from(["well", "well", "ill", "rankdef", "zero"]))
    s1 = shapes(n_mid, n_in)
    xs = shapes(n_in, n_in)
    case = dict(fact=fact, op=op, n_in=n_in, n_out=n_out, n_mid=n_mid, d=d, spread=spread,
                kind_x=kind_x, kind_q=kind_q)
    case["mx"] = arr(xs["b"])
    case["Lx"] = chol(xs["L"], kind_x)
    case["c1"] = dict(A=arr(s1["A"]), b=arr(s1["b"]), L=chol(s1["L"], kind_q), tl=scal(s1["tl"]), to=scal(s1["to"]))
    if op == "merge":
        s2 = shapes(n_out, n_mid)
        kind_q2 = draw(st.sampled_from(["well", "rankdef", "zero"]))
        case["c2"] = dict(A=arr(s2["A"]), b=arr(s2["b"]), L=chol(s2["L"], kind_q2), tl=scal(s2["tl"]), to=scal(s2["to"]))
    case["data"] = arr(s1["b"])
    case["point"] = arr(xs["b"])
    case["solve"] = draw(st.sampled_from(["triu", "lstsq"]))
    case["factor"] = draw(gen.log10_uniform(-6, 6))
    case["batch"] = draw(st.integers(2, 3))
    return case


def strategy(ctx):
    return _case()


# ------------------------------------------------------------------------- oracle side


def _scal(x):
    return 10.0 ** np.asarray(x, float)


def _build_cond(fact, n_o, d, c):
    return lib.make_cond(fact, n_o, d, c["A"], c["b"], c["L"], _scal(c["tl"]), _scal(c["to"]))


def _abs_mean_scale(F, c, m):
    return np.abs(F) @ np.abs(m) + np.abs(c)


def _sev(err, tol):
    return ":gross" if not err <= 1e4 * tol else ""


def _cmp_mean(res, tag, got, ref, scale, tol):
    scale = np.maximum(scale, 1e-300)
    err = float(np.max(np.abs(got - ref) / scale)) if np.all(np.isfinite(got)) else np.inf
    res.metric(f"{tag}/tol", err / tol)
    if not err <= tol:
        res.violate(tag + _sev(err, tol), f"{tag}: error {err:.3e} > {tol:.1e} (condition-aware scale)")


def _cmp_cov(res, tag, got, ref, tol, diag_a=None, diag_b=None):
    da = np.sqrt(np.clip(np.diag(ref) if diag_a is None else diag_a, 0, None))
    db = da if diag_b is None else np.sqrt(np.clip(diag_b, 0, None))
    scale = np.outer(da, db)
    scale = np.maximum(scale, 1e-300)
    ok = np.all(np.isfinite(got))
    # entries whose reference scale is exactly zero must be (numerically) zero as well
    zero = np.outer(da, db) == 0.0
    err = float(np.max(np.where(zero, 0.0, np.abs(got - ref) / scale))) if ok else np.inf
    res.metric(f"{tag}/tol", err / tol)
    if not err <= tol:
        res.violate(tag + _sev(err, tol), f"{tag}: correlation-normalised error {err:.3e} > {tol:.1e}")
    if ok and np.any(zero):
        big = max(float(np.max(np.abs(ref))), 1e-300)
        leak = float(np.max(np.abs(got[zero]))) / big
        if leak > 1e-12:
            res.violate(tag + ":zero", f"{tag}: entry that must vanish is {leak:.3e} (relative)")


def check_case(case):
    res = common.Result()
    fact, op, d = case["fact"], case["op"], case["d"]
    n_in, n_out, n_mid = case["n_in"], case["n_out"], case["n_mid"]
    res.label(f"fact:{fact}", f"op:{op}")
    singular = case["kind_x"] in ("rankdef", "zero") or case["kind_q"] in ("rankdef", "zero")
    if singular:
        res.label("singular")
    if n_mid == 1:
        res.label("obs_rows:1")
    if n_mid == n_in:
        res.label("obs_rows:n")
    offset_nonzero = bool(np.any(np.asarray(case["c1"]["b"]) != 0))
    res.nontrivial = case["spread"] >= 1.5 and offset_nonzero

    import jax
    import jax.numpy as jnp
    from probdiffeq.backend import linalg as pd_linalg

    with common.lib_call("construct"):
        rv = lib.make_normal(fact, n_in, d, case["mx"], case["Lx"])
        c1 = _build_cond(fact, n_mid, d, case["c1"])

    # dense reference of the inputs (harness embedding)
    m = lib.embed_vec(fact, case["mx"], d)
    Lx = lib.embed_mat(fact, case["Lx"], d)
    P = Lx @ Lx.T
    F, c, Q = _dense_cond(fact, case["c1"], d)

    # conditioning-aware tolerance multiplier for 'ill' classes
    tol = TOL
    if case["kind_x"] == "ill" or case["kind_q"] == "ill":
        tol = TOL * 1e3

    if op == "marginalise":
        with common.lib_call("marginalise"):
            out = c1.marginalise(rv)
            mo, Po = lib.normal_to_dense(fact, out, d)
        _cmp_mean(res, "marginalise:mean", mo, F @ m + c, _abs_mean_scale(F, c, m), 1e-12 * 50)
        _cmp_cov(res, "marginalise:cov", Po, F @ P @ F.T + Q, tol)

    elif op == "apply_flat":
        x = np.asarray(case["point"], float)
        with common.lib_call("apply_flat"):
            out = c1.apply_flat(jnp.asarray(x))
            mo, Po = lib.normal_to_dense(fact, out, d)
        xe = lib.embed_vec(fact, x, d)
        _cmp_mean(res, "apply_flat:mean", mo, F @ xe + c, _abs_mean_scale(F, c, xe), 1e-12 * 50)
        _cmp_cov(res, "apply_flat:cov", Po, Q, tol)

    elif op == "precon":
        with common.lib_call("preconditioner_apply"):
            out = c1.preconditioner_apply()
            F2, c2, Q2 = lib.cond_to_dense(fact, out, d)
            tl = np.asarray(out.to_latent)
            to = np.asarray(out.to_observed)
        if not (np.all(tl == 1.0) and np.all(to == 1.0)):
            res.violate("precon:unit", "preconditioner_apply() left non-unit scalings")
        sc = np.maximum(np.abs(F), 1e-300)
        e = float(np.max(np.abs(F2 - F) / sc))
        if not e <= 1e-13:
            res.violate("precon:A", f"effective matrix differs by {e:.2e}")
        _cmp_mean(res, "precon:offset", c2, c, np.abs(c), 1e-13)
        _cmp_cov(res, "precon:cov", Q2, Q, tol)

    elif op == "merge":
        with common.lib_call("merge"):
            c2l = _build_cond(fact, n_out, d, case["c2"])
            out = c2l.merge(c1)
            Fm, cm, Qm = lib.cond_to_dense(fact, out, d)
        F2, cc2, Q2 = _dense_cond(fact, case["c2"], d)
        Fr, cr, Qr = F2 @ F, F2 @ c + cc2, F2 @ Q @ F2.T + Q2
        # matrix: compare entrywise with the cancellation-aware scale |F2||F|
        sc = np.maximum(np.abs(F2) @ np.abs(F), 1e-300)
        e = float(np.max(np.abs(Fm - Fr) / sc)) if np.all(np.isfinite(Fm)) else np.inf
        res.metric("merge:A/tol", e / 1e-11)
        if not e <= 1e-11:
            res.violate("merge:A", f"composed matrix differs by {e:.2e}")
        _cmp_mean(res, "merge:offset", cm, cr, np.abs(F2) @ np.abs(c) + np.abs(cc2), 1e-11)
        _cmp_cov(res, "merge:cov", Qm, Qr, tol)

    elif op in ("revert", "bayes"):
        S = F @ P @ F.T + Q
        sing_S = _is_singular(S)
        solve_name = case["solve"]
        if sing_S:
            solve_name = "lstsq"
        solve = pd_linalg.solve_triu if solve_name == "triu" else pd_linalg.lstsq_svd
        res.label(f"solve:{solve_name}")
        if op == "revert":
            with common.lib_call("revert"):
                obs, bw = c1.revert(rv, solve_triu=solve)
                my, Py = lib.normal_to_dense(fact, obs, d)
                G, g, C = lib.cond_to_dense(fact, bw, d)
            _cmp_mean(res, "revert:obs_mean", my, F @ m + c, _abs_mean_scale(F, c, m), 1e-12 * 50)
            _cmp_cov(res, "revert:obs_cov", Py, S, tol)
            # joint law: x = G y + g + N(0, C).  G is only determined up to the conditioning
            # of S (G S G^T amplifies rounding by cond(S)), so the tolerance is cond-aware and
            # the comparison is skipped where float64 cannot represent the backward model.
            root = np.hstack([F @ Lx, _dense_root(fact, case["c1"], d)])
            cond_eff, ill, rank, dim = _effective_cond(S, root)
            if ill:
                res.label("revert:joint_skipped_illcond")
            else:
                res.label("revert:joint_checked")
                tol_j = max(10 * tol, 1e-13 * cond_eff) * (10 if sing_S else 1)
                mx_back = G @ (F @ m + c) + g
                sd = np.sqrt(np.clip(np.diag(P), 0, None))
                scale = np.abs(m) + sd + np.abs(G) @ (np.abs(F) @ np.abs(m) + np.abs(c)) * 1e-3
                Pxx = G @ S @ G.T + C
                Pxy = G @ S
                # Finding F11: rank decisions inside revert().  If the observed covariance is
                # rank-deficient but non-zero (0 < rank < dim), or so badly scaled that the
                # least-squares solve truncates a genuine direction, the backward model (gain
                # and conditional covariance) is not exact.  Such cases are attributed to F11;
                # the marginal of y (checked above) must still be exact.
                sv_raw = np.linalg.svd(root, compute_uv=False)
                lstsq_cut = solve_name == "lstsq" and bool(np.any((sv_raw > 0) & (sv_raw < 1e-12 * sv_raw.max())))
                if 0 < rank < dim or lstsq_cut:
                    res.label("revert:rankdef_observed")
                    sub = common.Result()
                    _cmp_mean(sub, "m", mx_back, m, scale, tol_j)
                    _cmp_cov(sub, "xy", Pxy, P @ F.T, tol_j, diag_a=np.diag(P), diag_b=np.diag(S))
                    _cmp_cov(sub, "xx", Pxx, P, tol_j)
                    if sub.violations:
                        res.violate("revert:joint:rankdef", "backward model inexact for rank-deficient/truncated observed covariance: "
                                    + "; ".join(v["msg"] for v in sub.violations)[:300], known="F11")
                else:
                    _cmp_mean(res, "revert:joint_mean_x", mx_back, m, scale, tol_j)
                    _cmp_cov(res, "revert:joint_cov_xy", Pxy, P @ F.T, tol_j, diag_a=np.diag(P), diag_b=np.diag(S))
                    _cmp_cov(res, "revert:joint_cov_xx", Pxx, P, tol_j)
        else:
            y = lib.embed_vec(fact, np.asarray(case["data"], float), d)
            if sing_S:
                # data must be consistent with a singular marginal: project onto its range
                raise common.Inconclusive("bayes with singular marginal is not defined for arbitrary data")
            data_tree = _data_tree(fact, case["data"], n_mid, d)
            with common.lib_call("bayes"):
                logpdf, upd = c1.bayes_rule_and_logpdf_tree(data_tree, rv, solve_triu=solve)
                rms, upd2 = c1.bayes_rule_and_residual_whitened_rms_tree(data_tree, rv, solve_triu=solve)
                upd3 = c1.bayes_rule_tree(data_tree, rv, solve_triu=solve)
                mu, Pu = lib.normal_to_dense(fact, upd, d)
                mu2, Pu2 = lib.normal_to_dense(fact, upd2, d)
                mu3, Pu3 = lib.normal_to_dense(fact, upd3, d)
            K = P @ F.T @ np.linalg.inv(S)
            mref = m + K @ (y - F @ m - c)
            Pref = P - K @ S @ K.T
            condS = np.linalg.cond(S / np.sqrt(np.outer(np.diag(S), np.diag(S))))
            if condS > 1e6:
                raise common.Inconclusive("reference gain ill-conditioned")
            t = tol * 10 * max(1.0, condS)
            sd = np.sqrt(np.clip(np.diag(P), 0, None))
            white = np.abs(np.linalg.solve(np.linalg.cholesky(S), y - F @ m - c))
            scale = np.abs(m) + sd * (1 + np.max(white))
            for tag, mm, PP in (("a", mu, Pu), ("b", mu2, Pu2), ("c", mu3, Pu3)):
                _cmp_mean(res, f"bayes:mean", mm, mref, scale, t)
                _cmp_cov(res, f"bayes:cov", PP, Pref, t, diag_a=np.diag(P), diag_b=np.diag(P))
            r = y - F @ m - c
            w = np.linalg.solve(np.linalg.cholesky(S), r)
            ref_logpdf = -0.5 * w @ w - 0.5 * len(y) * np.log(2 * np.pi) - 0.5 * np.linalg.slogdet(S)[1]
            lp = float(np.sum(np.asarray(logpdf)))
            e = abs(lp - ref_logpdf) / (1 + abs(ref_logpdf))
            res.metric("bayes:logpdf/tol", e / (t * 10))
            if not e <= t * 10:
                res.violate("bayes:logpdf", f"logpdf {lp} vs {ref_logpdf}")
            # whitened RMS: dense/isotropic one number over all entries, blockdiag per dimension
            rms = np.asarray(rms)
            if fact == "blockdiag":
                ref_rms = []
                for k in range(d):
                    idx = slice(k * n_mid, (k + 1) * n_mid)
                    wk = np.linalg.solve(np.linalg.cholesky(S[idx, idx]), r[idx])
                    ref_rms.append(np.linalg.norm(wk) / np.sqrt(n_mid))
                ref_rms = np.asarray(ref_rms)
            else:
                ref_rms = np.linalg.norm(w) / np.sqrt(len(y))
            e = common.rel_err(rms, ref_rms)
            res.metric("bayes:rms/tol", e / (t * 10))
            if not e <= t * 10:
                res.violate("bayes:rms", f"whitened rms {rms} vs {ref_rms}")

    elif op == "normal":
        factor = case["factor"]
        with common.lib_call("normal-ops"):
            mvn_m, mvn_P = rv.to_multivariate_normal()
            std = rv.std
            shape_f = rv.prototype_output_scale_calibrated().shape
            resc = rv.rescale_cholesky(jnp.ones(shape_f) * factor)
            mr, Pr = lib.normal_to_dense(fact, resc, d)
        perm = lib.perm_to_coeff_major(fact, n_in, d)
        _cmp_mean(res, "to_mvn:mean", np.asarray(mvn_m), m[perm], np.abs(m[perm]), 1e-15)
        _cmp_cov(res, "to_mvn:cov", np.asarray(mvn_P), P[np.ix_(perm, perm)], 1e-12)
        sd_ref = np.sqrt(np.diag(P))[perm].reshape(n_in, d)
        if fact == "isotropic":
            got = np.asarray([np.asarray(s) for s in std]).reshape(n_in)
            ref = sd_ref[:, 0]
        else:
            got = np.asarray([np.asarray(s).reshape(-1) for s in std])
            ref = sd_ref
        e = common.rel_err(got, ref)
        if not e <= 1e-12:
            res.violate("std", f"std differs by {e:.2e}")
        _cmp_mean(res, "rescale:mean", mr, m, np.abs(m), 1e-15)
        _cmp_cov(res, "rescale:cov", Pr, factor**2 * P, 1e-12)
        if not _is_singular(P):
            u = np.asarray(case["point"], float)
            with common.lib_call("logpdf"):
                lp = float(rv.logpdf_flat(jnp.asarray(u)))
                rms = np.asarray(rv.residual_whitened_rms_flat(jnp.asarray(u)))
            ue = lib.embed_vec(fact, u, d)
            condP = np.linalg.cond(P / np.sqrt(np.outer(np.diag(P), np.diag(P))))
            if condP > 1e8:
                raise common.Inconclusive("reference logpdf ill-conditioned")
            w = np.linalg.solve(np.linalg.cholesky(P), ue - m)
            ref = -0.5 * w @ w - 0.5 * len(ue) * np.log(2 * np.pi) - 0.5 * np.linalg.slogdet(P)[1]
            t = 1e-10 * max(1.0, condP)
            e = abs(lp - ref) / (1 + abs(ref))
            res.metric("logpdf/tol", e / t)
            if not e <= t:
                res.violate("logpdf", f"logpdf {lp} vs {ref} (err {e:.2e})")
            # whitened rms is only defined through a triangular factor: needs lower-tri chol
            if np.allclose(Lx, np.tril(Lx)) or fact != "dense":
                if _all_lower(fact, case["Lx"]):
                    if fact == "blockdiag":
                        ref_rms = np.asarray([
                            np.linalg.norm(np.linalg.solve(np.linalg.cholesky(P[k*n_in:(k+1)*n_in, k*n_in:(k+1)*n_in]), (ue - m)[k*n_in:(k+1)*n_in])) / np.sqrt(n_in)
                            for k in range(d)])
                    else:
                        ref_rms = np.linalg.norm(w) / np.sqrt(len(ue))
                    e = common.rel_err(rms, ref_rms)
                    res.metric("rms/tol", e / t)
                    if not e <= t:
                        res.violate("rms", f"whitened rms {rms} vs {ref_rms}")

    elif op == "identity":
        with common.lib_call("identity_conditional"):
            idc = rv.identity_conditional()
            Fi, ci, Qi = lib.cond_to_dense(fact, idc, d)
            out = idc.marginalise(rv)
            mo, Po = lib.normal_to_dense(fact, out, d)
        N = len(m)
        if not (np.array_equal(Fi, np.eye(N)) and not np.any(ci) and not np.any(Qi)):
            res.violate("identity", "identity_conditional is not (I, 0, 0)")
        _cmp_mean(res, "identity:marg_mean", mo, m, np.abs(m), 1e-14)
        _cmp_cov(res, "identity:marg_cov", Po, P, tol)
        # to_derivative(i, std): selects coefficient i, adds diag(std^2)
        i = case["batch"] % n_in
        sd = abs(case["factor"]) ** 0.5
        with common.lib_call("to_derivative"):
            if fact == "isotropic":
                std_arg = jnp.asarray(sd)
            else:
                std_arg = jnp.ones((d,)) * sd
            dc = rv.to_derivative(i, std_arg)
            Fd, cd, Qd = lib.cond_to_dense(fact, dc, d)
        perm = lib.perm_to_coeff_major(fact, n_in, d)
        Fref = np.zeros((d, N))
        for k in range(d):
            # harness embedding index of (coefficient i, dimension k)
            Fref[k, perm[i * d + k]] = 1.0
        if not np.array_equal(Fd, Fref) or np.any(cd):
            res.violate("to_derivative:A", "to_derivative does not select the requested coefficient")
        if common.rel_err(Qd, sd**2 * np.eye(d)) > 1e-14:
            res.violate("to_derivative:noise", "to_derivative noise is not diag(std^2)")

    elif op == "vmap":
        # batched variant: vmap(marginalise) over a batch of conditionals/normals built by scaling
        B = case["batch"]
        facs = jnp.asarray([1.0 + 0.5 * k for k in range(B)])
        with common.lib_call("vmap"):
            def one(f):
                rv_f = type(rv)(rv.mean_flat * f, rv.cholesky_flat * f, rv.tree_flatten)
                return c1.marginalise(rv_f)
            outs = jax.vmap(one)(facs)
            mm, PP = outs.to_multivariate_normal()
            mm, PP = np.asarray(mm), np.asarray(PP)
        perm = lib.perm_to_coeff_major(fact, n_mid, d)
        for k in range(B):
            f = float(facs[k])
            mref = (F @ (f * m) + c)[perm]
            Pref = (F @ (f * f * P) @ F.T + Q)[np.ix_(perm, perm)]
            _cmp_mean(res, "vmap:mean", mm[k], mref, _abs_mean_scale(F, c, f * m)[perm], 1e-12 * 50)
            _cmp_cov(res, "vmap:cov", PP[k], Pref, tol)
    return res


def _dense_cond(fact, c, d):
    A = lib.embed_mat(fact, c["A"], d)
    tl = lib.embed_diag(fact, _scal(c["tl"]), d)
    to = lib.embed_diag(fact, _scal(c["to"]), d)
    b = lib.embed_vec(fact, c["b"], d)
    L = lib.embed_mat(fact, c["L"], d)
    F = to[:, None] * A * tl[None, :]
    Lq = to[:, None] * L
    return F, to * b, Lq @ Lq.T


def _effective_cond(S, root=None):
    """(cond of correlation-normalised S on its range, ill-conditioned?).

    `root` is a matrix with root @ root.T == S exactly (known by construction); its singular
    values resolve relative eigenvalues of S down to ~1e-28, so a tiny-but-nonzero eigenvalue
    (ill-conditioned) is told apart from a structurally zero one (singular).
    """
    dg = np.sqrt(np.clip(np.diag(S), 0, None))
    keep = dg > 0
    if not np.any(keep):
        return 1.0, False, 0, int(len(dg))
    M = root[keep] / dg[keep][:, None]
    sv = np.linalg.svd(M, compute_uv=False)
    top = float(np.max(sv))
    # sv/top <= 5e-16: structurally zero (rounding noise); in (5e-16, 10^-4.5): cond(S) > 1e9
    ill = bool(np.any((sv > 5e-16 * top) & (sv < 10**-4.5 * top)))
    nz = sv[sv >= 10**-4.5 * top]
    cond = float((top / np.min(nz)) ** 2)
    rank = int(np.sum(sv > 5e-16 * top)) + int(np.sum(~keep)) * 0
    return cond, ill, rank, int(len(dg))


def _dense_root(fact, c, d):
    to = lib.embed_diag(fact, _scal(c["to"]), d)
    return to[:, None] * lib.embed_mat(fact, c["L"], d)


def _is_singular(S):
    dg = np.sqrt(np.clip(np.diag(S), 0, None))
    if np.any(dg == 0):
        return True
    C = S / np.outer(dg, dg)
    return np.linalg.cond(C) > 1e13


def _all_lower(fact, L):
    L = np.asarray(L, float)
    return bool(np.allclose(L, np.tril(L)))


def _data_tree(fact, data, n, d):
    import jax.numpy as jnp

    data = np.asarray(data, float)
    if fact == "dense":
        return [jnp.asarray(data.reshape(n, d)[i]) for i in range(n)]
    if fact == "isotropic":
        return [jnp.asarray(data[i]) for i in range(n)]
    return [jnp.asarray(data[:, i]) for i in range(n)]


def pinned_cases(ctx):
    import json
    import os

    if ctx.shard != 0:
        return []
    out = []
    kdir = os.path.join(common.VERIF, "replays", "known")
    for name in sorted(os.listdir(kdir)) if os.path.isdir(kdir) else []:
        if name.startswith("C08_"):
            with open(os.path.join(kdir, name)) as f:
                out.append((name, json.load(f)["case"]))
    return out


LEVEL = "exploration"
TECHNIQUE = "property-based differential testing (Hypothesis) against dense NumPy Gaussian formulas on the embedding; joint-law form for reversal"
LEVEL_TEXT = (
    "Generated-input search: thousands of random Gaussians/conditionals per run (all three factorisations, nine operation "
    "groups incl. vmap-batched, singular/ill-conditioned/zero covariance factors, scalings 1e-12..1e12) compared with dense "
    "formulas at 1e-9 (correlation-normalised, condition-aware). Exploration is the right level: the property is a finite set of "
    "algebraic identities over a continuous input space with a cheap exact oracle."
    ' Shapes up to 9 coefficients and 5 dimensions.'
)
LEVEL_NOTE = (
    "Trusted: NumPy/LAPACK float64 for the reference; comparison skipped (counted) where cond(S) > 1e9 makes the backward "
    "model unrepresentable in float64. Rank-deficient non-zero observed covariances are attributed to known finding F11."
)
