"""C18 - initial step-size proposals are positive, finite and follow the heuristics."""

import numpy as np
from hypothesis import strategies as st

from vlib import common, gen

ID = "C18"
BUDGET = {"quick": 1600, "thorough": 48000}
LEVEL = "exploration"
TECHNIQUE = "property-based testing (Hypothesis) over badly scaled initial values; independent NumPy implementation of the two-stage heuristic (Hairer-Norsett-Wanner II.4); end-to-end start of an adaptive solve"
LEVEL_TEXT = (
    "Generated initial values with components in {0, +-1e-300, +-1e300} and 10^U(-12,12) mixed within one vector (flat and pytree states), "
    "affine vector fields with f(u0) zero / non-zero / huge and explicit time dependence (none, c t, c t^2, c sin(w t) with |c| up to 8e6), tolerances 1e-12..1, contraction rates 1..12. Both helpers must return a "
    "finite, strictly positive float; the tolerance-aware helper must equal an independently written two-stage procedure (Euler probe, both "
    "guards, exponent 1/(rate+1), final minimum; overflow-safe norms) to 1e-9; for moderate magnitudes the returned step must let "
    "solve_adaptive_terminal_values start and finish with finite output."
    " Field kinds include slow dynamics (derivatives between the heuristic's thresholds 1e-15 and 1e-5)."
)
LEVEL_NOTE = (
    "Norm convention: the statement does not fix the norm of the classical heuristic; the reference uses the code base's documented "
    "convention (Euclidean d0, d1; tolerance-scaled d2) - see DESIGN.md C18. All structural elements are compared exactly."
)
RULE = (
    "case = (d <= 4, u0 magnitudes class per component, field kind, atol, rtol, rate, pytree flag); non-trivial = u0 contains an exact zero or a "
    "magnitude outside [1e-6, 1e6]; distinct by JSON hash"
)
ASSUMPTIONS = ["x64"]
REQUIRED_LABELS = ["u0:has_zero", "u0:tiny", "u0:huge", "f0:zero", "f0:nonzero", "solve_started", "pytree", "forcing:none", "forcing:linear", "forcing:sin",
                   "forcing:square", "heuristic:compared"]

MAGS = ["zero", "tiny", "huge", "moderate", "moderate", "moderate"]


@st.composite
def _case(draw):
    d = draw(st.integers(1, 4))
    comps = []
    for _ in range(d):
        kind = draw(st.sampled_from(MAGS))
        sign = draw(st.sampled_from([-1.0, 1.0]))
        comps.append(dict(kind=kind, sign=sign, exp=draw(gen.exponent(-12.0, 12.0))))
    return dict(d=d, comps=comps,
                field=draw(st.sampled_from(["zero", "decay", "decay", "affine", "const", "huge_const", "slow_decay", "slow_affine"])),
                log_slow=draw(gen.exponent(-17.0, -4.0)),  # slow dynamics: derivatives between the heuristic's thresholds 1e-15 and 1e-5
                A=draw(gen.mat(d, d, gen.quarter(-4, 4))), b=draw(gen.vec(d, gen.quarter(-8, 8))),
                log_atol=draw(gen.exponent(-12.0, 0.0)), log_rtol=draw(gen.exponent(-12.0, 0.0)),
                rate=draw(st.integers(1, 12)), pytree=draw(st.booleans()), t0=draw(gen.quarter(-4, 4)),
                # explicit time dependence: f(y, t) = A y + b + c * g(t), g in {t, sin(w t), t^2}
                forcing=draw(st.sampled_from(["none", "none", "linear", "sin", "square"])),
                c=draw(gen.vec(d, gen.quarter(-8, 8))), log_cmag=draw(gen.exponent(-3.0, 6.0)), omega=draw(gen.quarter(1, 64)))


def strategy(ctx):
    return _case()


def _u0(case):
    out = []
    for c in case["comps"]:
        v = {"zero": 0.0, "tiny": 1e-300, "huge": 1e300}.get(c["kind"])
        if v is None:
            v = 10.0 ** c["exp"]
        out.append(c["sign"] * v)
    return np.asarray(out)


def _field(case):
    d = case["d"]
    A = np.asarray(case["A"], float)
    b = np.asarray(case["b"], float)
    k = case["field"]
    if k == "zero":
        return np.zeros((d, d)), np.zeros(d)
    if k == "decay":
        return -np.eye(d), np.zeros(d)
    if k == "const":
        return np.zeros((d, d)), b
    if k == "huge_const":
        return np.zeros((d, d)), b * 1e200
    if k == "slow_decay":
        return -np.eye(d) * 10.0 ** case.get("log_slow", -8.0), np.zeros(d)
    if k == "slow_affine":
        return (A - 2.0 * np.eye(d)) * 10.0 ** case.get("log_slow", -8.0), b * 10.0 ** case.get("log_slow", -8.0)
    return A - 2.0 * np.eye(d), b


def _safe_norm(v):
    v = np.asarray(v, float)
    m = np.max(np.abs(v)) if v.size else 0.0
    if m == 0 or not np.isfinite(m):
        return m
    return m * np.sqrt(np.sum((v / m) ** 2))


def _forcing(case, xp=np):
    """g(t) of the explicit time dependence and its (vector) coefficient."""
    kind = case.get("forcing", "none")
    if kind == "none":
        return None, None
    c = np.asarray(case["c"], float) * 10.0 ** case["log_cmag"]
    w = float(case["omega"])
    g = {"linear": lambda t: t, "sin": lambda t: xp.sin(w * t), "square": lambda t: t * t}[kind]
    return c, g


def _reference_adaptive(A, b, y0, t0, rate, rtol, atol, forcing=(None, None), ulps=0.0):
    """ulps != 0: rounding model - the second-stage field value is perturbed by that many units in the
    last place (alternating signs), to measure how well-conditioned the difference f1 - f0 is."""
    c, g = forcing
    if c is None:
        f = lambda y, t: A @ y + b  # noqa: E731
    else:
        f = lambda y, t: A @ y + b + c * g(t)  # noqa: E731
    f0 = f(y0, t0)
    scale = atol + np.abs(y0) * rtol
    d0, d1 = _safe_norm(y0), _safe_norm(f0)
    h0 = 1e-6 if (d0 < 1e-5 or d1 < 1e-5) else 0.01 * d0 / d1
    y1 = y0 + h0 * f0
    f1 = f(y1, t0 + h0)  # the second stage is an explicit Euler step: state AND time advance
    if ulps:
        signs = np.where(np.arange(len(y0)) % 2 == 0, 1.0, -1.0)
        mag = np.abs(A) @ np.abs(y1) + np.abs(b) + (0.0 if c is None else np.abs(c) * max(abs(g(t0 + h0)), abs(g(t0))))
        f1 = f1 + ulps * 2.2e-16 * signs * mag
    d2 = _safe_norm((f1 - f0) / scale) / h0
    if d1 <= 1e-15 and d2 <= 1e-15:
        h1 = max(1e-6, h0 * 1e-3)
    else:
        h1 = (0.01 / max(d1, d2)) ** (1.0 / (rate + 1.0))
    return min(100.0 * h0, h1), (d0, d1, d2, h0)


def check_case(case):
    import jax
    import jax.numpy as jnp

    from probdiffeq import ivpsolve
    from probdiffeq import probdiffeq as pd

    res = common.Result()
    d = case["d"]
    y0 = _u0(case)
    A, b = _field(case)
    atol, rtol = 10.0 ** case["log_atol"], 10.0 ** case["log_rtol"]
    kinds = [c["kind"] for c in case["comps"]]
    if "zero" in kinds:
        res.label("u0:has_zero")
    if "tiny" in kinds:
        res.label("u0:tiny")
    if "huge" in kinds:
        res.label("u0:huge")
    cforce, g_np = _forcing(case, np)
    _, g_j = _forcing(case, jnp)
    with np.errstate(all="ignore"):
        f0 = A @ y0 + b + (0.0 if cforce is None else cforce * g_np(float(case["t0"])))
    res.label("f0:zero" if not np.any(f0) else "f0:nonzero")
    res.label("forcing:" + case.get("forcing", "none"))
    cj = None if cforce is None else jnp.asarray(cforce)
    res.nontrivial = "zero" in kinds or any(not (1e-6 <= abs(v) <= 1e6) for v in y0)
    Aj, bj = jnp.asarray(A), jnp.asarray(b)

    if case["pytree"] and d >= 2:
        res.label("pytree")
        split = d // 2

        def pack(v):
            return {"a": v[:split], "b": (v[split:],)}

        def unpack(t):
            return jnp.concatenate([t["a"], t["b"][0]])

        @pd.ode
        def vf(y, /, *, t):
            return pack(Aj @ unpack(y) + bj + (0.0 if cj is None else cj * g_j(t)))

        u0 = pack(jnp.asarray(y0))
    else:

        @pd.ode
        def vf(y, /, *, t):
            return Aj @ y + bj + (0.0 if cj is None else cj * g_j(t))

        u0 = jnp.asarray(y0)

    with common.lib_call("dt0"):
        h_simple = float(ivpsolve.dt0(vf, (u0,), t=case["t0"]))
    with common.lib_call("dt0_adaptive"):
        h_adapt = float(ivpsolve.dt0_adaptive(vf, (u0,), case["t0"], error_contraction_rate=case["rate"], rtol=rtol, atol=atol))

    # (a) finite and strictly positive
    with np.errstate(all="ignore"):
        ref, (rd0, rd1, rd2, rh0) = _reference_adaptive(A, b, y0, float(case["t0"]), case["rate"], rtol, atol, (cforce, g_np))
    # an intermediate of the documented formula leaves float64's normal range (XLA flushes subnormals)
    big = max(rd1, rd2) if np.isfinite(rd1) and np.isfinite(rd2) else np.inf
    out_of_range = (not np.isfinite(big)) or big > 0.01 / 2.3e-308 or (0 < rh0 < 2.3e-308) or not (np.isfinite(ref) and ref > 0)
    n0, n1 = _safe_norm(y0), _safe_norm(f0)
    for name, h in (("dt0", h_simple), ("dt0_adaptive", h_adapt)):
        if not (np.isfinite(h) and h > 0):
            # Finding F12: the proposal is mathematically positive but an intermediate quantity leaves
            # float64's range (ratio |u0|/|f0| below 1e-322, or the tolerance-scaled second-derivative
            # estimate above 1e308).  Attributed only if the independent float64 computation shows
            # exactly that over-/underflow; any other zero/NaN is a new violation.
            known = None
            if name == "dt0" and n0 > 0 and np.isfinite(n1) and (np.log10(n0) - np.log10(n1 + 1e-5) - 2.0) < -320.0:
                known = "F12"
            if name == "dt0_adaptive" and out_of_range:
                known = "F12"
            res.violate(f"{name}:not_positive_finite" + (":range" if known else ""),
                        f"{name} returned {h!r} for u0={y0.tolist()} (f(u0)={f0.tolist()})", known=known)

    # (b) the tolerance-aware helper reproduces the two-stage heuristic
    if np.isfinite(ref) and ref > 0 and np.isfinite(h_adapt) and not out_of_range:
        e = abs(h_adapt - ref) / ref
        # attainable accuracy: the heuristic differences two field values; where that difference is
        # ill-conditioned (tiny probe step), rounding in f decides the result and nothing can be compared
        tol = 1e-9
        with np.errstate(all="ignore"):
            for u in (4.0, -4.0):
                rp, _ = _reference_adaptive(A, b, y0, float(case["t0"]), case["rate"], rtol, atol, (cforce, g_np), ulps=u)
                if np.isfinite(rp):
                    tol = max(tol, 50.0 * abs(rp - ref) / ref)
                else:
                    tol = np.inf
        if tol > 1e-4:
            res.label("heuristic:illconditioned_difference")
            tol = np.inf
        else:
            res.label("heuristic:compared")
            res.metric("heuristic/tol", e / tol)
        if not e <= tol:
            res.violate("dt0_adaptive:heuristic" + (":gross" if e > 1e-3 else ""), f"dt0_adaptive={h_adapt!r}, two-stage heuristic gives {ref!r}")
    # simple helper: documented ratio scale*|y0|/(|f0|+nugget) whenever that is positive
    if n0 > 0 and np.isfinite(n0) and np.isfinite(n1) and np.isfinite(h_simple):
        ref_s = 0.01 * n0 / (n1 + 1e-5)
        if ref_s > 0 and np.isfinite(ref_s):
            e = abs(h_simple - ref_s) / ref_s
            res.metric("simple/tol", e / 1e-9)
            if not e <= 1e-9:
                res.violate("dt0:ratio", f"dt0={h_simple!r}, documented ratio gives {ref_s!r}")

    # (c) a returned proposal lets an adaptive solve start and finish (moderate magnitudes only:
    # a float64 filter cannot represent covariances of 1e300-sized states)
    mags = np.abs(y0)
    moderate = np.all((mags == 0) | ((mags >= 1e-6) & (mags <= 1e6))) and case["field"] != "huge_const"
    if moderate and not case["pytree"]:
        for name, h in (("dt0", h_simple), ("dt0_adaptive", h_adapt)):
            if not (np.isfinite(h) and h > 0):
                continue
            res.label("solve_started")
            fin = _try_solve(A, b, y0, case["t0"], h, max(atol, 1e-6), max(rtol, 1e-6), case)
            if fin is False:
                res.violate(f"{name}:solve_not_finite", f"adaptive solve started with {name}={h!r} returned non-finite output (u0={y0.tolist()})")
    return res


_SOLVE = {}


def _try_solve(A, b, y0, t0, h, atol, rtol, case):
    import jax
    import jax.numpy as jnp

    from probdiffeq import ivpsolve
    from probdiffeq import probdiffeq as pd

    d = len(y0)
    kind = case.get("forcing", "none")
    cforce, _ = _forcing(case, np)
    cvec = np.zeros(d) if cforce is None else cforce
    omega = float(case.get("omega", 1.0))
    if (d, kind) not in _SOLVE:

        def run(A, b, y0, t0, h, atol, rtol, c, w):
            g = {"none": lambda t: 0.0 * t, "linear": lambda t: t, "sin": lambda t: jnp.sin(w * t), "square": lambda t: t * t}[kind]

            @pd.ode
            def vf(y, /, *, t):
                return A @ y + b + c * g(t)

            tcoeffs, _ = pd.jetexpand_ode_padded_scan(num=2)(vf, (y0,), t=t0)
            ssm = pd.state_space_model_isotropic()
            prior = ssm.prior_wiener_integrated(tcoeffs)
            ts0 = ssm.constraint_ode_ts0(vf)
            solver = pd.solver_mle(strategy=pd.strategy_filter(), constraint=ts0)
            error = pd.error_residual_std(constraint=ts0)
            solve = ivpsolve.solve_adaptive_terminal_values(solver, error)
            sol = solve(prior, t0=t0, t1=t0 + 0.05, atol=atol, rtol=rtol, dt0=h)
            return sol.u.mean[0], sol.num_steps

        _SOLVE[(d, kind)] = jax.jit(run)
    with common.lib_call("solve_adaptive_terminal_values"):
        u, n = _SOLVE[(d, kind)](jnp.asarray(A), jnp.asarray(b), jnp.asarray(y0), float(t0), float(h), float(atol), float(rtol), jnp.asarray(cvec), omega)
    return bool(np.all(np.isfinite(np.asarray(u))))


def pinned_cases(ctx):
    import json
    import os

    if ctx.shard != 0:
        return []
    out = []
    kdir = os.path.join(common.VERIF, "replays", "known")
    for name in sorted(os.listdir(kdir)) if os.path.isdir(kdir) else []:
        if name.startswith("C18_"):
            with open(os.path.join(kdir, name)) as f:
                out.append((name, json.load(f)["case"]))
    return out
