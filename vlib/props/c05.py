"""C05 - checkpoint values do not depend on the checkpoint set; they interpolate exactly."""

import numpy as np
from hypothesis import strategies as st

from vlib import common, gen, ssmcase
from vlib import solverkit as sk

ID = "C05"
BUDGET = {"quick": 320, "thorough": 8000}
LEVEL = "exploration"
TECHNIQUE = "property-based metamorphic + differential testing (Hypothesis): superset/subset checkpoint runs, reference interpolation model on the recorded step sequence"
LEVEL_TEXT = (
    "Generated-input search over adaptive runs: a probe run records the accepted step sequence (recording proxies around the "
    "public Solver / error-estimator protocols), then checkpoint sets A subset B are *constructed relative to the step ends* "
    "(inside a step, several in one step, at a step end +- {0, 1 ulp, eps/2, 2 eps}, closer than eps). B restricted to A must "
    "equal A (means, covariances, step counts, scales); both must equal the textbook filter/RTS smoother on the recorded steps "
    "merged with the checkpoints (mpmath); the terminal-value routine must equal the last entry; off-grid marginals of a "
    "save-every-step run must agree. Exploration is right: the quantifier is over layouts/histories with an executable oracle."
    ' Structures carry a step controller (default integral / PI / integral with other parameters) that both routines must honour; when the recorded interpolation calls do not match the requested times one to one, the model is rebuilt from the requested times and the accepted steps alone and the values are compared.'
)
LEVEL_NOTE = "Trusted: mpmath reference model; recording proxies (ordered jax.debug callbacks). Clip off, same end points, as the property states."
RULE = (
    "case = (solver structure from a seeded pool, problem values, tolerances, dt0, checkpoint placement instructions relative to the "
    "probe run's step ends, subset mask); non-trivial = B has two checkpoints inside one step or one within 2 eps of a step end"
)
ASSUMPTIONS = ["jacobian_materialize(); IWP priors; integral controller; residual error estimate; x64"]
REQUIRED_LABELS = ["strategy:filter", "strategy:fixedpoint", "two_in_one_step", "near_step_end", "branch:interp_at"]
MAX_INCONCLUSIVE = 0.5

DELTAS = ["0", "+ulp", "-ulp", "+eps/2", "-eps/2", "+2eps", "-2eps", "+0.9eps", "-0.9eps"]


def strategy(ctx):
    rng = ctx.rng("c05-pool")
    size = 2 if ctx.tier == "quick" else 6
    pool = []
    for _ in range(size):
        cfg = ssmcase.draw_structure(rng, strategies=("filter", "fixedpoint"), nmax=5, dmax=2, inits=("exact", "inexact"), steps=(2, 2))
        cfg["nb"] = int(rng.integers(4, 8))
        cfg["na"] = int(rng.integers(3, cfg["nb"]))
        cfg["clip"] = False
        # the step controller is part of the configuration the checkpointed and the terminal-value routine must share
        cfg["control"] = [{"kind": "integral"}, {"kind": "pi"}, {"kind": "integral", "safety": 0.8, "factor_min": 0.3, "factor_max": 3.0}][int(rng.integers(0, 3))]
        pool.append(cfg)

    @st.composite
    def one(draw):
        cfg = draw(st.sampled_from(pool))
        case = draw(ssmcase.adaptive_values(cfg))
        nb = cfg["nb"]
        place = []
        for _ in range(nb - 2):
            kind = draw(st.sampled_from(["inside", "at_end", "same_step", "at_end"]))
            place.append(dict(kind=kind, step=draw(st.integers(0, 30)), frac=draw(st.floats(0.05, 0.95)),
                              delta=draw(st.sampled_from(DELTAS))))
        case["place"] = place
        case["keep"] = draw(st.permutations(list(range(nb - 2))))[: cfg["na"] - 2]
        case["extra"] = draw(st.sampled_from(["terminal", "none", "none", "offgrid"]))
        return case

    return one()


def _build_checkpoints(case, step_ends, t0, T):
    eps = case["eps"]
    ends = [t for t in step_ends if t0 < t < T]
    starts = [t0] + list(step_ends)
    pts = []
    last_step = None
    for p in case["place"]:
        i = p["step"] % max(len(step_ends), 1)
        a, b = starts[i], step_ends[i]
        if p["kind"] == "same_step" and last_step is not None:
            i = last_step
            a, b = starts[i], step_ends[i]
        last_step = i
        if p["kind"] in ("inside", "same_step"):
            t = a + p["frac"] * (b - a)
        else:
            dl = {"0": 0.0, "+ulp": np.spacing(b), "-ulp": -np.spacing(b), "+eps/2": eps / 2, "-eps/2": -eps / 2,
                  "+2eps": 2 * eps, "-2eps": -2 * eps, "+0.9eps": 0.9 * eps, "-0.9eps": -0.9 * eps}[p["delta"]]
            t = b + dl
        pts.append(float(t))
    nb = case["cfg"]["nb"]
    pts = sorted({t for t in pts if t0 + 10 * eps < t < T - 10 * eps})
    # fill up deterministically with interior points if placements collided / fell outside
    k = 1
    while len(pts) < nb - 2:
        cand = t0 + (T - t0) * k / (nb + 3.0)
        if all(abs(cand - t) > 1e-6 for t in pts):
            pts.append(cand)
            pts.sort()
        k += 1
    return [t0] + pts[: nb - 2] + [T]


def check_case(case):
    res = common.Result()
    cfg = case["cfg"]
    n, d = cfg["n"], cfg["d"]
    res.label(f"strategy:{cfg['strategy']}", f"fact:{cfg['fact']}", f"calib:{cfg['calib'].split('_')[0]}")
    a = ssmcase.adaptive_args(case)
    t0, T = a["t0"], a["t1"]
    smooth = cfg["strategy"] != "filter"

    # probe run: records the natural step sequence
    out0, ev0 = ssmcase.run_save_at(case, np.asarray([t0, T]))
    steps0, errs0 = sk.accepted_steps(ev0)
    if len(errs0) > 3000:
        raise common.Inconclusive("probe run needs > 3000 attempts")
    if not np.all(np.isfinite(out0["mean"])):
        raise common.Inconclusive("probe run not finite (method limit at this tolerance)")
    step_ends = [t + dt for t, dt in steps0]
    if not step_ends or step_ends[-1] + case["eps"] < T:
        raise common.Inconclusive(f"probe run recorded {len(step_ends)} accepted steps / did not reach T")
    B = _build_checkpoints(case, step_ends, t0, T)
    keep = sorted(case["keep"])
    A = [B[0]] + [B[1 + k] for k in keep] + [B[-1]]
    eps = case["eps"]

    # classify the layout
    starts = [t0] + step_ends
    def step_of(t):
        for i, (s, e) in enumerate(zip(starts, step_ends)):
            if s < t <= e:
                return i
        return len(step_ends) - 1
    owners = [step_of(t) for t in B[1:-1]]
    if len(set(owners)) < len(owners):
        res.label("two_in_one_step")
    near = any(min(abs(t - e) for e in step_ends) <= 2 * eps for t in B[1:-1])
    if near:
        res.label("near_step_end")
    if any(B[i + 1] - B[i] < eps for i in range(len(B) - 1)):
        res.label("closer_than_eps")
    res.nontrivial = len(set(owners)) < len(owners) or near

    outB, evB = ssmcase.run_save_at(case, np.asarray(B))
    outA, evA = ssmcase.run_save_at(case, np.asarray(A))
    if any(e[0] == "interp_at" for e in evB[:-1]):
        res.label("branch:interp_at")
    stepsB, _ = sk.accepted_steps(evB)
    stepsA, _ = sk.accepted_steps(evA)

    # the step sequence must not depend on the checkpoints
    if stepsA != steps0 or stepsB != steps0:
        res.violate("steps_differ", f"accepted step sequence depends on the checkpoint set ({len(steps0)}/{len(stepsA)}/{len(stepsB)} steps)")
        return res

    # reported times: requested times up to eps, one entry each, in order
    for name, out, S in (("A", outA, A), ("B", outB, B)):
        if out["t"].shape != (len(S),) or np.max(np.abs(out["t"] - np.asarray(S))) > eps * (1 + 1e-9):
            res.violate("times", f"run {name}: reported times differ from requested ones by more than eps")
            return res

    # (b) reference interpolation model on the recorded steps
    ref = ssmcase.reference_on_trace(case, evB, smooth=smooth)
    try:
        pert = ssmcase.reference_on_trace(case, evB, smooth=smooth, perturb=ssmcase.PERTURB)
    except common.Inconclusive:
        pert = None
    if len(ref["grid"]) != len(B):
        # the recorded interpolation calls do not match the requested times one to one: that is an observation about how the loop
        # calls the solver, not about the values C05 speaks of - rebuild the model from the requested times and the accepted steps
        res.label("interpolation_calls_differ_from_requests")
        ref = ssmcase.reference_on_trace(case, evB, smooth=smooth, requested=(B, float(case["eps"])))
        try:
            pert = ssmcase.reference_on_trace(case, evB, smooth=smooth, perturb=ssmcase.PERTURB, requested=(B, float(case["eps"])))
        except common.Inconclusive:
            pert = None
    nm, _ = ssmcase.compare_marginals(res, "B_vs_model", case, outB["mean"], outB["cov"], ref, pert)
    if nm == 0:
        raise common.Inconclusive("every coefficient block is beyond float64's reach for this case")
    nsB = np.asarray(outB["num_steps"]).astype(int)  # one entry per checkpoint after the initial time
    if not np.array_equal(nsB, ref["num_steps"][1:]):
        res.violate("num_steps", f"reported step counts {outB['num_steps']} vs accepted-attempt counts {ref['num_steps']}")

    # (a) B restricted to A equals A
    posB = [0] + [1 + k for k in keep] + [len(B) - 1]
    ssmcase.compare_marginals(res, "A_vs_B", case, outA["mean"], outA["cov"], ref, pert, idx=posB,
                              expected=(outB["mean"][posB], outB["cov"][posB]), lib_idx=list(range(len(A))))
    sub = [p_ - 1 for p_ in posB[1:]]
    if not np.array_equal(np.asarray(outA["num_steps"]), nsB[sub]):
        res.violate("num_steps:subset", "step counts at common checkpoints differ between A and B")
    sA, sB = np.asarray(outA["scale"], float)[-len(sub):], np.asarray(outB["scale"], float)[-(len(B) - 1):][sub]
    if sA.shape != sB.shape or not np.allclose(sA, sB, rtol=1e-8, atol=0):
        res.violate("scale:subset", "output scales at common checkpoints differ between A and B")

    # output scale against the model
    sc_ref = np.asarray(ref["scale"], float)[1:]
    sc_lib = np.asarray(outB["scale"], float)[-(len(B) - 1):]
    if sc_lib.shape != sc_ref.shape:
        res.violate("scale:shape", f"output_scale shape {sc_lib.shape} vs {sc_ref.shape}")
    elif pert is not None:
        asc = float(np.max(np.abs(np.asarray(pert["scale"], float)[1:] - sc_ref) / np.maximum(np.abs(sc_ref), 1e-300)))
        tol = max(10 * ssmcase.TOL0, ssmcase.FACTOR * asc)
        es = float(np.max(np.abs(sc_lib - sc_ref) / np.maximum(np.abs(sc_ref), 1e-300)))
        if tol <= ssmcase.SKIP:
            res.metric("scale/tol", es / tol)
            if not es <= tol:
                res.violate("scale", f"output scale at checkpoints differs from the model by {es:.3e}")

    # (d) terminal-value routine equals the last entry of the checkpointed routine (same clip flag)
    if case.get("extra") == "terminal":
        res.label("extra:terminal", "control:" + ("default" if cfg.get("control", {"kind": "integral"}) == {"kind": "integral"} else "non_default"))
        outT, evT = ssmcase.run_save_at(case, np.asarray([t0, T]), cfg_extra={"terminal": True, "clip": False})
        ssmcase.compare_marginals(res, "terminal", case, outT["mean"], outT["cov"], ref, pert, idx=[len(B) - 1],
                                  expected=(outB["mean"][[-1]], outB["cov"][[-1]]), lib_idx=[0])

    # (c) off-grid marginals of a save-every-step run (filter: same strategy; smoother: fixed-interval)
    if case.get("extra") == "offgrid":
        res.label("extra:offgrid")
        _offgrid(res, case, B, outB, ref, pert, step_ends)
    return res


def _offgrid(res, case, B, outB, ref, pert, step_ends):
    import jax.numpy as jnp

    cfg = dict(case["cfg"])
    if cfg["strategy"] == "fixedpoint":
        cfg["strategy"] = "fixedinterval"
    a = ssmcase.adaptive_args(case)
    with common.lib_call("save_every_step+offgrid_marginals"):
        call = sk.save_every_step_runner({**cfg, "has_base": a["base"] is not None})
        out, ev, (solver, sol) = call(a["C"], a["tc"], a["t0"], a["t1"], float(case["atol"]), float(case["rtol"]),
                                      float(case["dt0"]), float(case["eps"]), float(case["damp"]), a["base"], a["std"])
        grid = np.asarray(sol.t)
        # the off-grid marginals interpolate the save-every-step run's own steps: they are comparable with the checkpointed run only if
        # both runs accepted the same steps (the un-jitted Python loop and the compiled scan round differently; a borderline accept/reject
        # decision may flip - then both are right to tolerance level, but not to rounding level)
        ends_es = [e[1] + e[2] for e in ev if e[0] == "error" and e[3] >= 1.0]
        ends_b = [t for t in step_ends if t <= ends_es[-1] * (1 + 1e-12)] if ends_es else []
        n_cmp = min(len(ends_es), len(ends_b))
        if n_cmp == 0 or abs(len(ends_es) - len(ends_b)) > 0 or np.max(np.abs(np.asarray(ends_es[:n_cmp]) - np.asarray(ends_b[:n_cmp]))) > 1e-9 * (1 + abs(ends_es[-1])):
            res.label("offgrid:different_step_sequence")
            return
        idx, means, covs = [], [], []
        for k, t in enumerate(B[1:-1], start=1):
            # documented: off-grid times must not coincide with grid points. The save-every-step run's grid equals the checkpointed run's
            # steps only up to rounding jitter (un-jitted loop vs compiled scan, observed 1e-10): a requested time that close to a step end
            # falls on different sides of it in the two runs (prediction vs updated state) - not comparable, and C05 compares such
            # checkpoints with the interpolation model anyway
            if np.min(np.abs(grid - t)) <= max(10 * case["eps"], 1e-7 * (1.0 + abs(t))) or not (grid[0] < t < grid[-1]):
                continue
            est = solver.offgrid_marginals(jnp.asarray(t), solution=sol)
            m, c = est.to_multivariate_normal()
            idx.append(k), means.append(np.asarray(m)), covs.append(np.asarray(c))
    if not idx:
        return
    ssmcase.compare_marginals(res, "offgrid", case, np.asarray(means), np.asarray(covs), ref, pert, idx=idx,
                              expected=(outB["mean"][idx], outB["cov"][idx]), lib_idx=list(range(len(idx))))
