"""C10 - Taylor-coefficient initialisation returns the exact solution derivatives."""

from fractions import Fraction

import numpy as np
from hypothesis import strategies as st

from vlib import common, gen
from vlib.polyfield import PolyField
from vlib.ref import series

ID = "C10"
BUDGET = {"quick": 480, "thorough": 12000}
LEVEL = "exploration"
TECHNIQUE = "property-based testing (Hypothesis) against exact rational power-series arithmetic (fractions.Fraction) with a condition-aware float tolerance"
LEVEL_TEXT = (
    "Generated polynomial vector fields in (u, u', t) with rational coefficients (degree <= 3, d <= 3, order 1 and 2, explicit time "
    "dependence in > 40% of cases), rational initial values and initial times != 0, k = 0..10 requested coefficients, flat and nested-pytree "
    "states, all five routines (padded scan, unroll, via-JVP, Newton doubling, residual-based with the jet-lifted ODE residual), jit on/off. "
    "The oracle computes the exact Taylor coefficients of the solution with truncated power series over Fractions; the float comparison "
    "uses 256 eps x (sum of absolute terms) from a parallel absolute-value evaluation, so there is no bare relative tolerance."
    " Implicit problems u' + c u'^3 - P(u, t) = 0 (nonlinear in the highest derivative) are solved with the residual-based routine, with an explicit budget and with its default solver; oracle: the exact 0th..(num-1)th total derivatives of the residual along the returned coefficients vanish."
)
LEVEL_NOTE = "Trusted: exact Fraction arithmetic; the residual-based routine is iterative (tolerance 1e-12 requested) and is compared at 1e-7."
RULE = (
    "case = (routine, order, d, degree, rational coefficient matrix, rational inits and t0, k, pytree flag, jit flag); non-trivial = the field "
    "depends on t and k >= 3; distinct by JSON hash"
)
ASSUMPTIONS = ["x64"]
REQUIRED_LABELS = ["alg:padded_scan", "alg:unroll", "alg:via_jvp", "alg:doubling", "alg:residual", "alg:residual_implicit", "default_solver", "time_dependent", "order:2", "pytree", "jit"]
MAX_INCONCLUSIVE = 0.2


@st.composite
def _case(draw):
    alg = draw(st.sampled_from(["padded_scan", "unroll", "via_jvp", "doubling", "residual", "residual_implicit"]))
    order = 1 if alg in ("doubling", "residual_implicit") else draw(st.sampled_from([1, 1, 2]))
    d = draw(st.integers(1, 3 if alg != "residual_implicit" else 2))
    degree = draw(st.integers(1, 3 if alg != "residual_implicit" else 2))
    field = PolyField(d, order, degree, with_time=True)
    # sparse coefficient matrix: most entries zero keeps exact arithmetic cheap and magnitudes moderate
    C = [[0.0] * field.M for _ in range(d)]
    nnz = draw(st.integers(1, min(8, d * field.M)))
    for _ in range(nnz):
        i = draw(st.integers(0, d - 1))
        m = draw(st.integers(0, field.M - 1))
        C[i][m] = draw(gen.nonzero_quarter(-8, 8))
    if alg == "doubling":
        num = 2 ** (draw(st.integers(1, 3)) + 1) - 2  # m doublings return 2^(m+1) - 1 coefficients in total
    elif alg == "residual":
        num = draw(st.integers(0, 5))
    elif alg == "residual_implicit":
        num = draw(st.integers(1, 4))
    else:
        num = draw(st.integers(0, 10))
    return dict(cubic=draw(st.sampled_from([0.25, 0.5, 1.0])), default_solver=draw(st.booleans()), alg=alg, order=order, d=d, degree=degree, C=C, num=num,
                inits=draw(gen.mat(order, d, gen.quarter(-6, 6))), t0=draw(gen.nonzero_quarter(-8, 8)),
                pytree=draw(st.booleans()), jit=draw(st.booleans()))


def strategy(ctx):
    return _case()


def _pack(v, d):
    """Nested pytree view of a d-vector (d >= 2): {'a': first part (as 2-d if possible), 'b': (rest,)}."""
    import jax.numpy as jnp

    split = max(1, d // 2)
    return {"a": jnp.reshape(v[:split], (split, 1)), "b": (v[split:],)}


def _unpack(t):
    import jax.numpy as jnp

    return jnp.concatenate([jnp.reshape(t["a"], (-1,)), t["b"][0]])


def check_case(case):
    import jax
    import jax.numpy as jnp

    from probdiffeq import probdiffeq as pd

    res = common.Result()
    alg, order, d, num = case["alg"], case["order"], case["d"], case["num"]
    field = PolyField(d, order, case["degree"], with_time=True)
    C = np.asarray(case["C"], float)
    res.label(f"alg:{alg}", f"order:{order}")
    if alg == "residual_implicit":
        return _implicit(res, case, field, C)
    tdep = field.depends_on_time(C)
    if tdep:
        res.label("time_dependent")
    res.nontrivial = tdep and num >= 3

    # exact oracle (Fractions) and the absolute-value companion for the tolerance
    Cf = field.frac_coeffs(C)
    inits_f = [[Fraction(int(round(v * 4)), 4) for v in row] for row in case["inits"]]
    t0f = Fraction(int(round(case["t0"] * 4)), 4)
    coeffs = series.ode_taylor_coefficients(field, Cf.tolist(), inits_f, t0f, num)
    exact = series.derivatives_from_coeffs(coeffs)
    Cabs = [[abs(x) for x in row] for row in Cf.tolist()]
    inits_abs = [[abs(x) for x in row] for row in inits_f]
    bound = series.derivatives_from_coeffs(series.ode_taylor_coefficients(field, Cabs, inits_abs, abs(t0f), num))
    exact_f = np.asarray([[float(x) for x in row] for row in exact])
    bound_f = np.asarray([[float(x) for x in row] for row in bound])
    if not np.all(np.isfinite(bound_f)) or np.max(bound_f) > 1e200:
        raise common.Inconclusive("derivatives exceed 1e200")

    Cj = jnp.asarray(C)
    use_tree = bool(case["pytree"]) and d >= 2
    if use_tree:
        res.label("pytree")
    if case["jit"]:
        res.label("jit")

    def f_flat(*jet, t):
        return field.jax_eval_static(C, list(jet), t)

    if order == 1:
        if use_tree:
            vf = pd.ode(lambda y, /, *, t: _pack(f_flat(_unpack(y), t=t), d))
        else:
            vf = pd.ode(lambda y, /, *, t: f_flat(y, t=t))
    else:
        if use_tree:
            vf = pd.ode_order_two(lambda y, dy, /, *, t: _pack(f_flat(_unpack(y), _unpack(dy), t=t), d))
        else:
            vf = pd.ode_order_two(lambda y, dy, /, *, t: f_flat(y, dy, t=t))
    inits = [jnp.asarray(np.asarray(row, float)) for row in case["inits"]]
    inits_arg = tuple(_pack(v, d) for v in inits) if use_tree else tuple(inits)
    t0 = float(case["t0"])

    if alg == "padded_scan":
        expand = pd.jetexpand_ode_padded_scan(num=num)
    elif alg == "unroll":
        expand = pd.jetexpand_ode_unroll(num=num)
    elif alg == "via_jvp":
        expand = pd.jetexpand_ode_via_jvp(num=num)
    elif alg == "doubling":
        m = int(np.log2(num + 2)) - 1
        expand = pd.jetexpand_ode_doubling_unroll(num_doublings=m)
    else:
        nl = pd.lstsq_constrained_gauss_newton(maxiter=60, tol=1e-13)
        expand = pd.jetexpand_residual(num, nlstsq=nl)

    def call(inits_arg, t):
        if alg == "residual":
            if use_tree:
                raise common.Inconclusive("residual-based routine documents flat states only")
            residual = pd.residual_from_ode(vf)
            if num >= 1:
                residual = residual.jet_lift(lift_by=num - 1)
            out, _info = expand(residual, list(inits_arg), t=t)
        else:
            out, _info = expand(vf, inits_arg, t=t)
        return out

    if alg == "residual" and use_tree:
        raise common.Inconclusive("residual-based routine documents flat states only")
    with common.lib_call(f"jetexpand:{alg}"):
        fn = jax.jit(call) if case["jit"] else call
        out = fn(inits_arg, t0)
        got = [np.asarray(_unpack(x) if use_tree else x, float).reshape(-1) for x in out]
    want = order + num
    if len(got) != want:
        res.violate("count", f"{alg}: returned {len(got)} coefficients, expected {want} (= {order} initial + {num})")
        return res
    got = np.asarray(got)
    eps = np.finfo(float).eps
    rel = 1e-7 if alg == "residual" else 256 * eps
    tol = rel * np.maximum(bound_f, 1e-300) + (1e-9 if alg == "residual" else 0.0)
    err = np.abs(got - exact_f)
    ratio = float(np.max(err / tol)) if np.all(np.isfinite(got)) else np.inf
    res.metric(f"{'residual' if alg == 'residual' else 'ode'}/tol", ratio)
    if not ratio <= 1.0:
        j, i = np.unravel_index(int(np.argmax(err / tol)), err.shape)
        res.violate(f"value:{alg}" + (":gross" if ratio > 1e6 else ""),
                    f"{alg}: derivative u^({j})[{i}] = {got[j, i]!r}, exact {exact_f[j, i]!r} ({str(exact[j][i])}); time-dependent={tdep}")
    return res


LAST_ABS = [0.0]


def _implicit(res, case, field, C):
    """Implicit problem  r(u, u', t) = u' + c u'^3 - P(u, t) = 0  (nonlinear in the highest derivative, d r / d u' = 1 + 3 c u'^2 > 0, so
    the constraints determine all coefficients).  Oracle: a validity predicate - the lifted residual (its 0th..(num-1)-th total time
    derivatives, evaluated exactly along the returned coefficients) must vanish; the routine with its default solver must do as well as with
    an explicit generous budget whenever the latter needed at most 8 iterations (the documented default budget is 10)."""
    import jax.numpy as jnp

    from probdiffeq import probdiffeq as pd

    d, num, c3 = case["d"], case["num"], float(case["cubic"])
    C = np.asarray(C, float) * 0.25  # moderate right-hand sides: Gauss-Newton from the diffuse prior converges in a handful of iterations
    res.nontrivial = True
    t0 = float(case["t0"])
    u0 = np.asarray(case["inits"][0], float)
    # the residual as a polynomial in (u, u', t): for the exact total derivatives
    f2 = PolyField(d, 2, 3, with_time=True)
    C2 = np.zeros((d, f2.M))
    for m, a in enumerate(field.alpha):  # -P(u, t)
        a2 = tuple(list(a[:d]) + [0] * d + [a[d]])
        C2[:, f2.alpha.index(a2)] -= C[:, m]
    for i in range(d):
        e1 = [0] * f2.nvars
        e1[d + i] = 1
        C2[i, f2.alpha.index(tuple(e1))] += 1.0
        e3 = [0] * f2.nvars
        e3[d + i] = 3
        C2[i, f2.alpha.index(tuple(e3))] += c3

    def rfun(u, du, /, *, t):
        return du + c3 * du**3 - field.jax_eval_static(C, [u], t)

    def run(nlstsq):
        residual = pd.residual_velocity(rfun, jacobian=pd.jacobian_materialize())
        if num >= 2:
            residual = residual.jet_lift(lift_by=num - 1)
        expand = pd.jetexpand_residual(num) if nlstsq is None else pd.jetexpand_residual(num, nlstsq=nlstsq)
        out, info = expand(residual, [jnp.asarray(u0)], t=t0)
        return np.asarray([np.asarray(x, float).reshape(-1) for x in out]), info

    def lifted_residual(jet):
        """rms of the exact 0th..(num-1)-th total derivatives of r along the jet, relative to the sum of the absolute terms."""
        ex = series.total_derivatives_along_jet(f2, C2.tolist(), [list(map(float, row)) for row in jet[: num + 1]], t0, num - 1, one=1.0)
        Cabs = np.abs(C2).tolist()
        bd = series.total_derivatives_along_jet(f2, Cabs, [list(map(lambda v: abs(float(v)), row)) for row in jet[: num + 1]], abs(t0), num - 1, one=1.0)
        ex, bd = np.asarray(ex, float), np.asarray(bd, float)
        LAST_ABS[0] = float(np.max(np.abs(ex)))
        # relative to the sum of the absolute terms, with an absolute floor (a component whose terms all vanish has nothing to be relative to)
        return float(np.max(np.abs(ex) / (bd + 1e-3 * (1.0 + float(np.max(np.abs(jet)))))))

    with common.lib_call("jetexpand_residual(implicit, explicit budget)"):
        jet_ref, info_ref = run(pd.lstsq_constrained_gauss_newton(maxiter=60, tol=1e-13))
    iters_ref = int(info_ref.get("iters", 60)) if isinstance(info_ref, dict) else 60
    if jet_ref.shape[0] != num + 1:
        res.violate("count", f"residual_implicit: returned {jet_ref.shape[0]} coefficients, expected {num + 1}")
        return res
    if not np.all(np.isfinite(jet_ref)) or np.max(np.abs(jet_ref)) > 1e6:
        raise common.Inconclusive("implicit problem: Gauss-Newton from the diffuse prior does not converge (not what C10 is about)")
    r_ref = lifted_residual(jet_ref)
    res.metric("implicit:residual(explicit budget)/tol", r_ref / 1e-9)
    if iters_ref >= 60:
        raise common.Inconclusive("implicit problem: 60 Gauss-Newton iterations were not enough")
    if not r_ref <= 1e-9:
        res.violate("implicit:residual", f"residual_implicit: the returned coefficients do not satisfy the lifted residual (relative size {r_ref:.2e} after {iters_ref} iterations, tol 1e-13)")
        return res
    if np.any(jet_ref[0] != u0):
        res.violate("implicit:initial_value", "the given initial value was changed")
    if case["default_solver"]:
        res.label("default_solver")
        with common.lib_call("jetexpand_residual(implicit, default solver)"):
            jet_def, info_def = run(None)
        r_def = lifted_residual(jet_def) if np.all(np.isfinite(jet_def)) else np.inf
        res.metric("implicit:residual(default)/tol", r_def / 1e-5)
        # the default solver stops on an *absolute* residual of 1e-6 (documented default tolerance): a residual below 1e-5 in absolute
        # terms is what it promises, whatever its size relative to the terms (false alarm at seed 7: relative 6e-4, absolute 6e-7)
        if iters_ref <= 8 and not r_def <= 1e-5 and not LAST_ABS[0] <= 1e-5:
            it = info_def.get("iters") if isinstance(info_def, dict) else None
            res.violate("implicit:default_solver", f"jetexpand_residual({num}) with its default solver leaves a lifted residual of relative size {r_def:.2e} "
                        f"(reported iterations: {it}); an explicit budget converges in {iters_ref} iterations to {r_ref:.1e}")
    return res
