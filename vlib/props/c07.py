"""C07 - the acceptance quantity equals the documented local error estimate."""

import math

import numpy as np
from hypothesis import strategies as st

from vlib import common, gen, lib, ssmcase
from vlib import solverkit as sk
from vlib.ref import kalman as K

ID = "C07"
BUDGET = {"quick": 1920, "thorough": 48000}
LEVEL = "exploration"
TECHNIQUE = "property-based differential testing (Hypothesis) against a NumPy transcription of the documented estimate; metamorphic relations (scale invariance, covariance independence, cache semantics)"
LEVEL_TEXT = (
    "Generated previous/proposed states produced by real solver steps on random polynomial problems (so the cached linearisation is "
    "genuine), dt = 10^U(-5,0), atol/rtol = 10^U(-10,-1), both estimators x both norms x cached/re-linearised x per-unit-step x "
    "derivative index x 3 factorisations x 3 calibration modes x first/second-order ODEs, damping on/off. Oracle: unit-scale prediction "
    "from the previous mean, documented linearisation, local scale = whitened RMS, error = scale x std of the observed residual (or of "
    "the conditioned state's chosen coefficient) x dt^n/n!, selected norm against max(|u_prev|,|u_new|), power -1/(number of "
    "coefficients). Metamorphic: invariant under base-scale x c; unchanged when the previous covariance is replaced; with caching the "
    "value follows the cached linearisation, with re-linearisation it ignores it."
)
LEVEL_NOTE = "Trusted: NumPy float64 reference with exact IWP transitions; tolerance 1e-7 relative (observed up to 1.6e-8 on the unchanged tree; smallest seeded effect 8.6e-5), widened by the measured cancellation in the residual (skipped beyond 1e-3)."
RULE = (
    "structures (solver x estimator options) from a seeded pool, values by Hypothesis; non-trivial = estimate in (1e-3, 1e3) (neither branch of "
    "the acceptance test is trivial); distinct by JSON hash"
)
ASSUMPTIONS = ["jacobian_materialize(); IWP priors; x64; filter strategy (the estimate does not depend on the strategy)"]
REQUIRED_LABELS = ["est:residual", "est:state", "norm:scale_then_rms", "norm:rms_then_scale", "relin", "cached", "per_unit_step", "order:2",
                   "fact:dense", "fact:isotropic", "fact:blockdiag", "calib:dynamic", "calib:mle", "didx>=1"]
MAX_INCONCLUSIVE = 0.4


def strategy(ctx):
    rng = ctx.rng("c07-pool")
    size = 4 if ctx.tier == "quick" else 6
    pool = []
    for _ in range(size):
        cfg = ssmcase.draw_structure(rng, strategies=("filter",), nmax=6, steps=(1, 1), inits=("exact", "inexact"), calibs=("none", "mle", "dynamic", "dynamic_relin"))
        cfg["cinit"] = False
        kind = str(rng.choice(["residual", "state"]))
        cfg["error"] = dict(kind=kind, norm=str(rng.choice(["scale_then_rms", "rms_then_scale"])), relin=bool(rng.integers(0, 2)),
                            per_unit_step=bool(rng.integers(0, 2)), derivative_idx=int(rng.integers(0, cfg["n"])) if kind == "state" else 0,
                            lin=cfg["lin"])
        pool.append(cfg)

    @st.composite
    def one(draw):
        cfg = draw(st.sampled_from(pool))
        case = draw(ssmcase.values(cfg))
        # previous accepted step: the same "tighter ranges at the highest orders" as every state-space check (n >= 5: >= 1e-2, n >= 7:
        # >= 3e-2) - after a tinier step the previous mean's high derivatives are rounding noise amplified by the gain ~ 1/h^(n-2)
        lo = -3.0 if cfg["n"] < 5 else (-2.0 if cfg["n"] < 7 else -1.5)
        case["incs"] = [10.0 ** draw(gen.exponent(lo, -0.5))]
        # the attempted step relative to the previous accepted one: 1/100 .. 20 (what step controllers can propose), inside [1e-5, 1]
        case["dt"] = float(min(1.0, max(1e-5, case["incs"][0] * 10.0 ** draw(gen.exponent(-2.0, 1.3)))))
        case["atol"] = 10.0 ** draw(gen.exponent(-10.0, -1.0))
        case["rtol"] = 10.0 ** draw(gen.exponent(-10.0, -1.0))
        case["c"] = 10.0 ** draw(gen.exponent(-3.0, 3.0))
        return case

    return one()


_CACHE = {}


def _runner(cfg):
    key = sk.structure_key(cfg) + (("error", str(cfg["error"])),)
    if key in _CACHE:
        return _CACHE[key]
    import dataclasses

    import jax
    import jax.numpy as jnp

    field = sk.make_field(cfg)
    fact = cfg["fact"]

    def run(C, tc, t0, h0, dt, atol, rtol, damp, base, init_std):
        ssm = lib.ssm(fact)
        vf = sk.make_ode(field, C)
        prior = sk.make_prior(ssm, cfg, [tc[i] for i in range(cfg["n"])], base, init_std)
        constraint = sk.make_constraint(ssm, cfg, vf)
        solver = sk.make_solver(ssm, cfg, constraint, None)
        error = sk.make_error(ssm, cfg, vf)
        s0 = solver.init(t=t0, u=prior, damp=damp)
        prev = solver.step(state=s0, dt=h0, damp=damp)
        prop = solver.step(state=prev, dt=dt, damp=damp)
        est = lambda p, q: error.estimate_error_norm(error.init_error(), previous=p, proposed=q, dt=dt, atol=atol, rtol=rtol, damp=damp)[0]  # noqa: E731
        ep = est(prev, prop)
        # metamorphic variants
        proto = prev.u.prototype_output_scale_calibrated()
        u2 = prev.u.rescale_cholesky(jnp.ones_like(proto) * 3.0)
        prev_cov = dataclasses.replace(prev, u=u2, solution_full=u2)
        ep_cov = est(prev_cov, prop)
        fe = prop.fun_evals
        noise2 = type(fe.noise)(fe.noise.mean_flat + 1.0, fe.noise.cholesky_flat, fe.noise.tree_flatten)
        fe2 = type(fe)(fe.A, noise2, fe.to_latent, fe.to_observed)
        ep_fe = est(prev, dataclasses.replace(prop, fun_evals=fe2))
        noise3 = type(fe.noise)(fe.noise.mean_flat * 1.37 + 0.123, fe.noise.cholesky_flat, fe.noise.tree_flatten)
        fe3 = type(fe)(fe.A, noise3, fe.to_latent, fe.to_observed)
        ep_fe2 = est(prev, dataclasses.replace(prop, fun_evals=fe3))
        pm, _ = prev.u.to_multivariate_normal()
        qm, _ = prop.u.to_multivariate_normal()
        return dict(ep=ep, ep_cov=ep_cov, ep_fe=ep_fe, ep_fe2=ep_fe2, prev_mean=pm, prop_mean=qm, t_prev=prev.t)

    fn = jax.jit(run)
    _CACHE[key] = fn
    return fn


def _call(case, base_factor=1.0):
    import jax
    import jax.numpy as jnp

    cfg = case["cfg"]
    field, C, tc, grid, base_vec = ssmcase.case_arrays(case)
    base_vec = base_vec * base_factor
    std = sk.init_std_vector(cfg)
    use_base = case.get("base") is not None or base_factor != 1.0
    base_arg = jnp.asarray(base_vec[0] if cfg["fact"] == "isotropic" else base_vec) if use_base else None
    with common.lib_call("step+estimate_error_norm"):
        fn = _runner({**cfg, "has_base": base_arg is not None})
        out = fn(jnp.asarray(C), jnp.asarray(tc), float(grid[0]), float(grid[1] - grid[0]), float(case["dt"]), float(case["atol"]), float(case["rtol"]),
                 float(case["damp"]), base_arg, jnp.asarray(std))
        return jax.tree.map(np.asarray, out), (field, C, base_vec)


def check_case(case):
    res = common.Result()
    cfg = case["cfg"]
    e = cfg["error"]
    n, d, order, fact = cfg["n"], cfg["d"], cfg["order"], cfg["fact"]
    res.label(f"est:{e['kind']}", f"norm:{e['norm']}", "relin" if e["relin"] else "cached", f"fact:{fact}", f"calib:{cfg['calib'].split('_')[0]}", f"order:{order}")
    if e["per_unit_step"]:
        res.label("per_unit_step")
    if e.get("derivative_idx", 0) >= 1:
        res.label("didx>=1")
    out, (field, C, base_vec) = _call(case)
    ep = float(out["ep"])
    dt, atol, rtol, damp = case["dt"], case["atol"], case["rtol"], case["damp"]
    # "reachable states": an attempted step more than 20x the previous accepted one cannot be proposed by the controllers (factor_max
    # <= 20 in everything generated here, default 10). Beyond that ratio the previous mean's high derivatives carry the rounding of the
    # tiny previous step (gain ~ 1/h^3) and the comparison degrades like (dt/h)^3 (seed-0 false alarm: h = 1e-3, dt = 1, n = 5: 1.6e-5)
    if float(case["dt"]) > 20.0 * float(case["incs"][0]):
        raise common.Inconclusive("attempted step more than 20x the previous accepted step: not reachable through the step controllers")

    # ---- reference -------------------------------------------------------------------------
    # 50-digit arithmetic throughout: the covariance-form expressions below cancel heavily
    # (the library works in square-root form, which does not)
    N = K.Num(mp=True)
    spec = ssmcase.make_spec(case, mp=True)
    m_prev = np.asarray(out["prev_mean"], float)
    m_prop = np.asarray(out["prop_mean"], float)
    if not (np.all(np.isfinite(m_prev)) and np.all(np.isfinite(m_prop))):
        raise common.Inconclusive("solver step not finite (dynamic calibration with zero residual, F8 class)")
    q = n - 1
    Phi1, Q1 = K.iwp_1d(q, dt, N)
    Phi = K.kron(Phi1, N.eye(d))
    Dg = N.zeros(d, d)
    for a in range(d):
        Dg[a, a] = N.num(float(base_vec[a])) ** 2
    Q = K.kron(Q1, Dg)
    mu = Phi @ N.arr(m_prev)
    t_new = float(out["t_prev"]) + dt
    H, b = spec.linearise(mu, t_new)
    z = H @ mu + b
    S = H @ Q @ H.T
    for a in range(d):
        S[a, a] = S[a, a] + N.num(damp) ** 2
    # sum of the absolute terms of the residual, *including* those of the extrapolation mu = Phi m_prev (after a tiny previous step the
    # high derivatives of m_prev are large and the Taylor sum cancels): float64 resolves z to eps x this sum
    mu_abs = np.abs(Phi) @ np.abs(N.arr(m_prev))
    zabs = N.to_float(np.abs(H) @ mu_abs + np.abs(b))
    try:
        sigma = spec.whitened_rms(z, S)
    except (ZeroDivisionError, np.linalg.LinAlgError) as err:
        raise common.Inconclusive("local scale undefined (singular innovation)") from err
    sigma = N.to_float(np.atleast_1d(np.asarray(sigma, dtype=object)))
    z = N.to_float(z)
    if not np.all(np.isfinite(sigma)) or np.any(sigma <= 0):
        raise common.Inconclusive("local scale is zero (exactly vanishing residual)")
    Sf, Qf = N.to_float(S), N.to_float(Q)
    if e["kind"] == "residual":
        std = np.sqrt(np.diag(Sf))
        if fact == "isotropic":
            std = np.ones(d) * np.sqrt(Sf[0, 0])
        n_exp = order + (1 if e["per_unit_step"] else 0)
        idx = 0
    else:
        idx = int(e.get("derivative_idx", 0))
        try:
            Kg = N.solve(S.T, (Q @ H.T).T).T
        except ZeroDivisionError as err:
            raise common.Inconclusive("local scale undefined (singular innovation)") from err
        Pc = N.to_float(Q - Kg @ S @ Kg.T)
        std = np.sqrt(np.clip(np.diag(Pc)[idx * d : (idx + 1) * d], 0, None))
        n_exp = idx + (1 if e["per_unit_step"] else 0)
    Q = Qf
    err = np.atleast_1d(sigma) * std
    ref = np.maximum(np.abs(m_prev[idx * d : (idx + 1) * d]), np.abs(m_prop[idx * d : (idx + 1) * d]))
    err_abs = err * dt**n_exp / math.factorial(n_exp)
    rms = lambda v: float(np.linalg.norm(v) / np.sqrt(v.size))  # noqa: E731
    if e["norm"] == "scale_then_rms":
        norm = rms(err_abs / (atol + rtol * ref))
    else:
        norm = rms(err_abs) / (atol + rtol * rms(ref))
    if not (np.isfinite(norm) and norm > 0):
        raise common.Inconclusive("reference norm not positive finite")
    ep_ref = norm ** (-1.0 / n)
    res.nontrivial = 1e-3 < ep_ref < 1e3

    kappa = float(np.max(zabs / np.maximum(np.abs(z), 1e-300))) * np.finfo(float).eps
    tol = max(1e-7 if e["kind"] == "residual" else 2e-5, 100.0 * kappa)  # floor: observed up to 1.6e-8 on the unchanged tree (n = 5, h = 0.01); smallest seeded effect 8.6e-5
    if e["kind"] == "state":
        # the library's square-root update loses eps * sqrt(cancellation) digits in the conditioned std
        cancel = float(np.sqrt(np.max(np.diag(Q)[idx * d : (idx + 1) * d] / np.maximum(std**2, 1e-300)))) * np.finfo(float).eps
        tol = max(tol, 1e3 * cancel)
    if tol > 1e-3:
        raise common.Inconclusive("estimate ill-conditioned (cancellation in the residual)")
    rel = abs(ep - ep_ref) / ep_ref if np.isfinite(ep) else np.inf
    res.metric("estimate/tol", rel / tol)
    if not rel <= tol:
        res.violate("estimate" + (":gross" if rel > 1e-2 else ""),
                    f"acceptance quantity {ep!r} vs documented estimate {ep_ref!r} (rel {rel:.3e}; {e}, fact={fact}, calib={cfg['calib']}, order={order})")
    # ---- metamorphic side conditions --------------------------------------------------------
    ep_cov = float(out["ep_cov"])
    if not abs(ep_cov - ep) <= 1e-12 * abs(ep):
        res.violate("uses_previous_covariance", f"estimate changes ({ep!r} -> {ep_cov!r}) when only the previous covariance is replaced")
    ep_fe, ep_fe2 = float(out["ep_fe"]), float(out["ep_fe2"])
    same1, same2 = abs(ep_fe - ep) <= 1e-12 * abs(ep), abs(ep_fe2 - ep) <= 1e-12 * abs(ep)
    if e["relin"]:
        if not (same1 and same2):
            res.violate("relin:uses_cache", "re-linearisation was requested but the estimate follows the cached linearisation")
    else:
        # two different perturbations of the cached linearisation: both leaving the estimate unchanged is no coincidence
        if same1 and same2:
            res.violate("cached:ignores_cache", "cached linearisation was requested but the estimate ignores it")
    # base-scale invariance (exact only without damping and with a noise-free initial state)
    if damp == 0.0 and cfg["init"] == "exact" and cfg["calib"] in ("none", "mle", "mle_nocorr"):
        out2, _ = _call(case, base_factor=case["c"])
        ep2 = float(out2["ep"])
        r2 = abs(ep2 - ep) / abs(ep)
        res.metric("scale_invariance/tol", r2 / max(tol, 1e-7))
        if not r2 <= max(tol, 1e-7):
            res.violate("scale_invariance", f"estimate changes by {r2:.3e} when the base output scale is multiplied by {case['c']:.3g}")
    return res
