"""C09 - prior transitions are the exact discretisation of their SDE and compose."""

import math

import numpy as np
from hypothesis import strategies as st

from vlib import common, gen, lib
from vlib.ref import kalman as K

ID = "C09"
BUDGET = {"quick": 1280, "thorough": 32000}
LEVEL = "exploration"
TECHNIQUE = "property-based differential testing (Hypothesis): closed-form IWP transitions and an 80-digit mpmath Van-Loan reference for matrix exponential and Gramian; composition law as metamorphic relation"
LEVEL_TEXT = (
    "Generated steps h = 10^U(-6,2), orders q = 0..10, dimensions d <= 5, diagonal base scales 10^U(-3,3), calibrated scales, drift matrices "
    "with ||F h|| up to ~50 (integrated Ornstein-Uhlenbeck with real/complex spectra, Matern length scales, general exponential priors), all "
    "five Pade/Legendre orders in float64 and float32. (a) IWP transitions of all three factorisations, preconditioner removed, vs the exact "
    "Taylor/Pascal matrix and Hilbert-type covariance; (b) exp_gram_cholesky(order)(A, B) vs Van Loan's block exponential evaluated with "
    "mpmath at 80 digits (a float64 Van Loan reference is itself wrong at small h / high q); (c) exponential priors through the public "
    "constructors vs the same reference with the drift built from the documented SDE; (d) t(h2) o t(h1) = t(h1+h2); (e) noise scales "
    "linearly with calibrated and base scale."
    ' (f) the highest 0..2 coefficients of an exponential prior may be declared as diffuse derivatives of the constructor - the SDE must not depend on how they were declared.'
)
LEVEL_NOTE = "Trusted: mpmath expm at 80 digits; closed forms for the IWP. float64 tolerance 1e-10 x (1 + #doublings), float32 2e-4 x (1 + #doublings)."
RULE = (
    "case = (mode iwp|gram|expprior|compose, shapes, h, scales, drift entries, Pade order, dtype); non-trivial = at least one doubling and q >= 2 "
    "(exponential), or q >= 3 and h outside [0.1, 10] (IWP); distinct by JSON hash"
)
ASSUMPTIONS = ["x64 enabled; float32 cases pass float32 arrays to the public Gramian routine"]
REQUIRED_LABELS = ["mode:iwp", "mode:gram", "mode:expprior", "mode:compose", "order:3", "order:5", "order:7", "order:9", "order:13", "dtype:float32",
                   "prior:ou", "prior:matern", "doublings>=1", "diffuse_derivatives"]
MAX_INCONCLUSIVE = 0.2
ORDERS = [3, 5, 7, 9, 13]


@st.composite
def _case(draw):
    mode = draw(st.sampled_from(["iwp", "iwp", "gram", "gram", "expprior", "compose"]))
    case = dict(mode=mode)
    if mode in ("iwp", "compose"):
        case.update(fact=draw(st.sampled_from(gen.FACTS)), q=draw(st.integers(0, 10)), d=draw(st.integers(1, 5)),
                    log_h=draw(gen.exponent(-6.0, 2.0)), log_h2=draw(gen.exponent(-3.0, 1.0)),
                    log_base=draw(gen.vec(5, gen.exponent(-3.0, 3.0))), log_scale=draw(gen.exponent(-3.0, 3.0)),
                    kind=draw(st.sampled_from(["iwp", "iwp", "ou", "matern"])), theta=draw(gen.mat(3, 3, gen.quarter(-8, 8))),
                    log_ell=draw(gen.exponent(-1.0, 1.0)))
    elif mode == "gram":
        n = draw(st.integers(1, 8))
        m = draw(st.sampled_from([1, n, max(1, n // 2)]))
        case.update(order=draw(st.sampled_from(ORDERS)), n=n, m=m, A=draw(gen.mat(n, n, gen.quarter(-8, 8))), B=draw(gen.mat(n, m, gen.quarter(-8, 8))),
                    log_norm=draw(gen.exponent(-6.0, 1.7)), triu=draw(st.booleans()), dtype=draw(st.sampled_from(["float64", "float64", "float32"])),
                    at_radius=draw(st.booleans()))
    else:  # exponential priors through the public constructors (dense only)
        q = draw(st.integers(0, 5))
        d = draw(st.integers(1, 3))
        case.update(kind=draw(st.sampled_from(["ou", "matern", "general"])), q=q, d=d, log_h=draw(gen.exponent(-4.0, 1.0)),
                    theta=draw(gen.mat(3, 3, gen.quarter(-8, 8))), log_ell=draw(gen.exponent(-1.0, 1.0)),
                    G=draw(gen.mat(3, 18, gen.quarter(-4, 4))), log_base=draw(gen.vec(3, gen.exponent(-2.0, 2.0))), log_scale=draw(gen.exponent(-2.0, 2.0)),
                    # the highest k coefficients may be "diffuse derivatives" of the constructor: the SDE (drift, dispersion) of the q+1
                    # coefficients must be the same however they were declared
                    diffuse=draw(st.sampled_from([0, 0, 1, 2])))
    return case


def shard_env(shard, nshards):
    """Every fourth shard runs with x64 disabled: the float32 behaviour of the Gramian routines
    and of the exponential priors is only reachable in a float32 process."""
    return {"JAX_ENABLE_X64": "0"} if (shard % 4 == 3 and nshards >= 4) else {}


def _x64():
    import jax

    return bool(jax.config.jax_enable_x64)


def strategy(ctx):
    if _x64():
        return _case().filter(lambda c: c.get("dtype", "float64") == "float64")
    return _case().filter(lambda c: c["mode"] == "gram").map(lambda c: {**c, "dtype": "float32"})


# ------------------------------------------------------------------------------------ references


def _mp_van_loan(A, B, dps=80):
    """(expm(A), int_0^1 e^{sA} B B^T e^{sA^T} ds) with mpmath."""
    import mpmath

    mpmath.mp.dps = dps
    n = A.shape[0]
    M = mpmath.matrix(2 * n, 2 * n)
    BBt = B @ B.T
    for i in range(n):
        for j in range(n):
            M[i, j] = mpmath.mpf(float(A[i, j]))
            M[i, n + j] = mpmath.mpf(float(BBt[i, j])) if B.dtype != object else BBt[i, j]
            M[n + i, n + j] = -mpmath.mpf(float(A[j, i]))
    E = mpmath.expm(M, method="taylor")
    eA = np.array([[E[i, j] for j in range(n)] for i in range(n)], dtype=object)
    E12 = np.array([[E[i, n + j] for j in range(n)] for i in range(n)], dtype=object)
    G = E12 @ eA.T
    tof = np.vectorize(float, otypes=[float])
    return tof(eA), tof((G + G.T) / 2)


def _cmp_matrix(res, tag, got, ref, tol, absref=None):
    got = np.asarray(got, float)
    if got.shape != ref.shape:
        res.violate(f"{tag}:shape", f"{tag}: shape {got.shape} vs {ref.shape}")
        return
    scale = np.maximum(np.abs(ref) if absref is None else absref, 1e-300)
    big = float(np.max(np.abs(ref))) if ref.size else 1.0
    e = float(np.max(np.abs(got - ref) / np.maximum(scale, 1e-14 * big))) if np.all(np.isfinite(got)) else np.inf
    res.metric(f"{tag}/tol", e / tol)
    if not e <= tol:
        res.violate(tag + (":gross" if e > 1e4 * tol else ""), f"{tag}: relative entry error {e:.3e} > {tol:.1e}")


def _cmp_cov(res, tag, got, ref, tol):
    got = np.asarray(got, float)
    dg = np.sqrt(np.clip(np.diag(ref), 0, None))
    sc = np.maximum(np.outer(dg, dg), 1e-300)
    e = float(np.max(np.abs(got - ref) / sc)) if np.all(np.isfinite(got)) else np.inf
    res.metric(f"{tag}/tol", e / tol)
    if not e <= tol:
        res.violate(tag + (":gross" if e > 1e4 * tol else ""), f"{tag}: correlation-normalised error {e:.3e} > {tol:.1e}")


def _drift(kind, q, d, case):
    """Companion-form drift of the documented SDE (coefficient-major), bottom block per prior."""
    n = q + 1
    F = np.zeros((n * d, n * d))
    for i in range(q):
        F[i * d : (i + 1) * d, (i + 1) * d : (i + 2) * d] = np.eye(d)
    if kind == "ou":
        theta = np.asarray(case["theta"], float)[:d, :d]
        F[q * d :, q * d :] = theta
    elif kind == "matern":
        ell = 10.0 ** case["log_ell"]
        D = n
        z = math.sqrt(2 * (D - 0.5)) / ell
        for i in range(n):
            F[q * d :, i * d : (i + 1) * d] = -math.comb(D, i) * z ** (D - i) * np.eye(d)
    elif kind == "general":
        G = np.asarray(case["G"], float)[:d, : n * d] * 0.5
        F[q * d :, :] = G
    return F


def check_case(case):
    res = common.Result()
    res.label(f"mode:{case['mode']}")
    if case["mode"] == "gram":
        return _gram(res, case)
    if case["mode"] == "expprior":
        return _expprior(res, case)
    return _iwp(res, case)


def _make_prior(fact, kind, q, d, base, case, diffuse=0):
    import jax.numpy as jnp

    from probdiffeq import probdiffeq as pd

    ssm = lib.ssm(fact)
    k = min(int(diffuse), q)  # at least one coefficient is given explicitly
    tc = [jnp.zeros((d,)) for _ in range(q + 1 - k)]
    kw = dict(diffuse_derivatives=k) if k else {}
    scale = jnp.asarray(base[0]) if fact == "isotropic" else jnp.asarray(base[:d])
    if kind == "iwp":
        return ssm.prior_wiener_integrated(tc, output_scale=scale, **kw)
    if kind == "ou":
        theta = jnp.asarray(np.asarray(case["theta"], float)[:d, :d])
        return ssm.prior_ornstein_uhlenbeck_integrated(lambda s: theta @ s, tc, output_scale=scale, **kw)
    if kind == "matern":
        return ssm.prior_matern(10.0 ** case["log_ell"], tc, output_scale=scale, **kw)
    G = jnp.asarray(np.asarray(case["G"], float)[:d, : (q + 1) * d] * 0.5)
    ode = pd.ode_autonomous_order_arbitrary(lambda *a: G @ jnp.concatenate(a), num_tcoeffs_in_args=q + 1, jacobian=pd.jacobian_materialize())
    return ssm.prior_exponential(ode, tc, output_scale=scale, **kw)


def _transition_dense(fact, prior, h, sigma, n, d):
    import jax.numpy as jnp

    proto = prior.init.prototype_output_scale_calibrated()
    cond = prior.transition(dt=h, output_scale=jnp.ones_like(proto) * sigma)
    F, c, Q = lib.cond_to_dense(fact, cond, d)
    perm = lib.perm_to_coeff_major(fact, n, d)
    return F[np.ix_(perm, perm)], c[perm], Q[np.ix_(perm, perm)], cond


def _iwp(res, case):
    fact, q, d = case["fact"], case["q"], case["d"]
    kind = case["kind"] if (fact == "dense" and case["mode"] == "compose") else "iwp"
    n = q + 1
    h = 10.0 ** case["log_h"]
    base = 10.0 ** np.asarray(case["log_base"], float)
    base_vec = np.ones(d) * base[0] if fact == "isotropic" else base[:d]
    sigma = 10.0 ** case["log_scale"]
    res.label(f"fact:{fact}", f"prior:{kind}")
    if kind != "iwp":
        d = min(d, 3)
        base_vec = base_vec[:d]
        q = min(q, 4)
        n = q + 1
        h = min(h, 3.0)
    with common.lib_call("transition"):
        prior = _make_prior(fact, kind, q, d, base_vec if fact != "isotropic" else base, case)
        F, c, Q, _ = _transition_dense(fact, prior, h, sigma, n, d)
    if np.any(c != 0):
        res.violate("iwp:offset", "transition has a non-zero offset")
    if case["mode"] == "iwp":
        res.nontrivial = q >= 3 and not (0.1 <= h <= 10.0)
        N = K.Num(mp=False)
        Phi1, Q1 = K.iwp_1d(q, h, N)
        Fref = np.kron(Phi1, np.eye(d))
        Qref = np.kron(Q1, np.diag((base_vec * sigma) ** 2))
        mask = Fref != 0
        e = float(np.max(np.abs(F - Fref)[mask] / np.abs(Fref)[mask])) if np.all(np.isfinite(F)) else np.inf
        if np.any(F[~mask] != 0):
            res.violate("iwp:structure", "transition matrix has entries outside the Taylor/Pascal pattern")
        res.metric("iwp:Phi/tol", e / 1e-12)
        if not e <= 1e-12:
            res.violate("iwp:Phi" + (":gross" if e > 1e-8 else ""), f"IWP({q}) transition over h={h:.3g} differs from h^k/k! by {e:.3e} (relative)")
        _cmp_cov(res, "iwp:Q", Q, Qref, 1e-10)
        # (e) linear in the calibrated scale
        with common.lib_call("transition(scale)"):
            _, _, Q2, _ = _transition_dense(fact, prior, h, 3.0 * sigma, n, d)
        _cmp_cov(res, "iwp:scale_linearity", Q2, 9.0 * Qref, 1e-10)
        return res
    # (d) composition t(h2) o t(h1) == t(h1 + h2)
    h2 = 10.0 ** case["log_h2"]
    if kind != "iwp":
        h2 = min(h2, 3.0)
    res.nontrivial = q >= 2
    with common.lib_call("merge"):
        F1, c1, Q1_, cond1 = _transition_dense(fact, prior, h, sigma, n, d)
        F2, c2, Q2_, cond2 = _transition_dense(fact, prior, h2, sigma, n, d)
        merged = cond2.merge(cond1)
        Fm, cm, Qm = lib.cond_to_dense(fact, merged, d)
        perm = lib.perm_to_coeff_major(fact, n, d)
        Fm, Qm = Fm[np.ix_(perm, perm)], Qm[np.ix_(perm, perm)]
        F12, _, Q12, _ = _transition_dense(fact, prior, h + h2, sigma, n, d)
    tol = 1e-9 if kind == "iwp" else 1e-7
    _cmp_matrix(res, f"compose:{'iwp' if kind == 'iwp' else 'exp'}:Phi", Fm, F12, tol, absref=np.abs(F2) @ np.abs(F1))
    _cmp_cov(res, f"compose:{'iwp' if kind == 'iwp' else 'exp'}:Q", Qm, Q12, tol * 10)
    return res


def _gram(res, case):
    import jax.numpy as jnp
    from probdiffeq.backend import linalg as pl
    from probdiffeq.util import gram_util

    n, m, order = case["n"], case["m"], case["order"]
    res.label(f"order:{order}", f"dtype:{case['dtype']}")
    A = np.asarray(case["A"], float)
    if case["triu"]:
        A = np.triu(A)
    B = np.asarray(case["B"], float)
    pl_obj = {3: gram_util.pade_and_legendre_3, 5: gram_util.pade_and_legendre_5, 7: gram_util.pade_and_legendre_7,
              9: gram_util.pade_and_legendre_9, 13: gram_util.pade_and_legendre_13}[order]()
    f32 = case["dtype"] == "float32"
    if f32 == _x64():
        raise common.Inconclusive("case dtype does not match the process precision (replay it with JAX_ENABLE_X64 set accordingly)")
    eta = float(pl_obj.eta_fp32 if f32 else pl_obj.eta_fp64)
    nrm = np.linalg.norm(A, 1)
    if nrm == 0:
        A = A + np.eye(n) * 0.25
        nrm = np.linalg.norm(A, 1)
    target = eta * 0.999 if case["at_radius"] else 10.0 ** case["log_norm"]
    A = A * (target / nrm)
    dt = np.float32 if f32 else np.float64
    A, B = A.astype(dt).astype(float), B.astype(dt).astype(float)  # reference sees exactly the rounded inputs
    s1 = np.log2(np.linalg.norm(A, 1) / eta)
    s2 = np.log2((n - 1) / pl_obj.q) if n > 1 else -np.inf
    doublings = int(max(0.0, np.ceil(max(s1, s2))))
    if doublings >= 1:
        res.label("doublings>=1")
    res.nontrivial = doublings >= 1 or case["at_radius"]
    with common.lib_call("exp_gram_cholesky"):
        alg = gram_util.exp_gram_cholesky(pade_legendre=pl_obj, solve=pl.solve_triu if case["triu"] else pl.solve_lu)
        eA, L = alg(jnp.asarray(A, dtype=dt), jnp.asarray(B, dtype=dt))
        eA, L = np.asarray(eA, float), np.asarray(L, float)
    eA_ref, G_ref = _mp_van_loan(A, B)
    unit = 2e-4 if f32 else 1e-10
    tol = unit * (1 + doublings)
    # matrix exponential: relative to the natural scale exp(|A|) entrywise is too generous; use ||.||_max
    e = float(np.max(np.abs(eA - eA_ref)) / max(np.max(np.abs(eA_ref)), 1e-300)) if np.all(np.isfinite(eA)) else np.inf
    res.metric(f"gram:expm:{case['dtype']}/tol", e / tol)
    if not e <= tol:
        res.violate(f"gram:expm:order{order}" + (":gross" if e > 1e4 * tol else ""), f"order {order} ({case['dtype']}): expm error {e:.3e} > {tol:.1e} (||A||_1={np.linalg.norm(A, 1):.3g}, {doublings} doublings)")
    G = L @ L.T
    dg = np.sqrt(np.clip(np.diag(G_ref), 0, None))
    sc = np.maximum(np.outer(dg, dg), 1e-300 + 1e-12 * float(np.max(dg)) ** 2)
    eg = float(np.max(np.abs(G - G_ref) / sc)) if np.all(np.isfinite(G)) else np.inf
    res.metric(f"gram:gramian:{case['dtype']}/tol", eg / tol)
    if not eg <= tol:
        res.violate(f"gram:gramian:order{order}" + (":gross" if eg > 1e4 * tol else ""), f"order {order} ({case['dtype']}): Gramian error {eg:.3e} > {tol:.1e} (||A||_1={np.linalg.norm(A, 1):.3g}, {doublings} doublings)")
    if np.any(np.triu(L, 1) != 0) or np.any(np.diag(L) < 0):
        res.violate("gram:factor_form", "returned Gramian factor is not lower triangular with non-negative diagonal")
    return res


def _expprior(res, case):
    kind, q, d = case["kind"], case["q"], case["d"]
    n = q + 1
    h = 10.0 ** case["log_h"]
    base = 10.0 ** np.asarray(case["log_base"], float)[:d]
    sigma = 10.0 ** case["log_scale"]
    res.label(f"prior:{kind}")
    Fd = _drift(kind, q, d, case)
    if np.linalg.norm(Fd * h, 1) > 50.0:
        h = 50.0 / np.linalg.norm(Fd, 1)
    res.nontrivial = q >= 2
    with common.lib_call("exponential prior"):
        prior = _make_prior("dense", kind, q, d, base, case, diffuse=case.get("diffuse", 0))
        if min(int(case.get("diffuse", 0)), q) > 0:
            res.label("diffuse_derivatives")
        F, c, Q, _ = _transition_dense("dense", prior, h, sigma, n, d)
    Bd = np.zeros((n * d, d))
    Bd[q * d :, :] = np.diag(base * sigma)
    eA_ref, G_ref = _mp_van_loan(Fd * h, Bd * np.sqrt(h))
    if np.max(np.abs(eA_ref)) > 1e12:
        raise common.Inconclusive("transition matrix exceeds 1e12")
    nd = np.linalg.norm(Fd * h, 1)
    doublings = max(0, int(np.ceil(np.log2(max(nd, 1e-300) / 0.4))))
    if doublings >= 1:
        res.label("doublings>=1")
    tol = 1e-9 * (1 + doublings)
    e = float(np.max(np.abs(F - eA_ref)) / max(np.max(np.abs(eA_ref)), 1e-300)) if np.all(np.isfinite(F)) else np.inf
    res.metric("expprior:Phi/tol", e / tol)
    if not e <= tol:
        res.violate(f"expprior:{kind}:Phi" + (":gross" if e > 1e4 * tol else ""), f"{kind} prior (q={q}, d={d}, h={h:.3g}): transition differs from expm(F h) by {e:.3e}")
    dg = np.sqrt(np.clip(np.diag(G_ref), 0, None))
    sc = np.maximum(np.outer(dg, dg), 1e-300)
    eg = float(np.max(np.abs(Q - G_ref) / sc)) if np.all(np.isfinite(Q)) else np.inf
    res.metric("expprior:Q/tol", eg / (10 * tol))
    if not eg <= 10 * tol:
        res.violate(f"expprior:{kind}:Q" + (":gross" if eg > 1e5 * tol else ""), f"{kind} prior (q={q}, d={d}, h={h:.3g}): process noise differs from the finite-horizon Gramian by {eg:.3e}")
    return res
