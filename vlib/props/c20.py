"""C20 - malformed inputs are rejected loudly instead of being broadcast silently.

For this property the contract is inverted: an exception (at construction or first use) is the
expected outcome, and "numbers came back" is the violation.
"""

import warnings

import numpy as np
from hypothesis import strategies as st

from vlib import common, gen, lib

ID = "C20"
BUDGET = {"quick": 400, "thorough": 32000}
LEVEL = "exploration"
FUZZ = {"quick": (1, 40), "thorough": (8, 800)}  # (processes, libFuzzer runs each): coverage-guided campaigns over the same generator/oracle
TECHNIQUE = "property-based fault injection (Hypothesis) plus coverage-guided fuzzing (atheris/libFuzzer driving the same generator through fuzz_one_input): one field of an otherwise valid argument set is corrupted by an operator from a catalogue or receives an arbitrary shape; validity decided by an explicit acceptance model"
LEVEL_TEXT = (
    "Generated (entry point, field, corruption operator, factorisation, sizes): prior constructors incl. the diffuse / exponential / "
    "Ornstein-Uhlenbeck / Matern variants, transition(), constraint constructors, error estimators, both losses, the Taylor-coefficient "
    "routines, jet-lifting, the matrix-free model, and the strategy/routine pairings. Corruptions: wrong rank, wrong length, "
    "broadcastable-but-different shape, different tree structure with equal flattened size, non-boolean exactness flags, plain functions "
    "where an ODE/residual description is required, lift orders out of range, ODE order != number of coefficients for exponential priors, "
    "residual-based error estimate on a constraint of another shape, fewer ensemble members than coefficients. Each corrupted argument set "
    "must raise at construction or first use (a 2-step fixed-grid solve / one loss evaluation / one estimator call); the uncorrupted twin "
    "must work (otherwise the harness, not the library, is at fault). Unsuitable pairings must warn and name the remedy. The (entry point, "
    "corruption, factorisation) product is finite and is enumerated in full on every run (label pinned:sweep; the thorough tier also "
    "enumerates the constructor variant and sub-variant); the random cases on top vary sizes and variants. Generic-shape fuzzing: the "
    "array-valued fields (output_scale, transition(output_scale=), one is_exact leaf, one tcoeffs_std leaf, both loss noise levels) receive "
    "arbitrary shapes of rank 0..3; the acceptance model decides which shapes are valid (must work) - every other shape must raise; all shapes "
    "that broadcasting / raveling / reshaping could swallow (size one, unit axes inserted, an axis replaced by one, transposed, flattened, an "
    "axis off by one) are enumerated on every run."
)
LEVEL_NOTE = "The acceptance model is transcribed from the library's own checks and messages (e.g. dense/blockdiag exactness leaves may be () or the leaf shape; isotropic std leaves must be scalars), so documented-acceptable values are never counted as corruptions."
RULE = (
    "case = (entry point, corruption operator, factorisation, n, d); non-trivial = the corrupted value is shape-compatible with the valid one under "
    "NumPy broadcasting (the class silent broadcasting would swallow); distinct by JSON hash"
)
ASSUMPTIONS = ["x64; first use = 2-step fixed-grid solve, one loss evaluation or one estimator call"]
REQUIRED_LABELS = ["entry:output_scale", "entry:is_exact", "entry:tcoeffs", "entry:tcoeffs_std", "entry:loss_std", "entry:plain_function", "entry:lift",
                   "entry:exponential_order", "entry:error_shape", "entry:ensembles", "entry:warning", "entry:transition_scale", "valid_twin_ok",
                   "ctor:wiener", "ctor:wiener_diffuse", "ctor:exponential", "ctor:wiener+diffuse_derivatives", "pinned:sweep",
                   "generic:valid_shape", "generic:invalid_shape", "pinned:shapes"]

ENTRIES = {
    "output_scale": ["extra_axis", "wrong_length", "scalar_for_vector", "vector_for_scalar", "length_one", "tree_structure", "generic_shape"],
    "transition_scale": ["extra_axis", "wrong_length", "vector_for_scalar", "length_one", "generic_shape"],
    "is_exact": ["int_flags", "float_flags", "wrong_length", "wrong_leaf_shape", "tree_structure", "extra_coefficient", "generic_shape"],
    "tcoeffs": ["array_instead_of_list", "ragged_leaves", "not_iterable"],
    "tcoeffs_std": ["tree_structure_same_size", "wrong_length", "vector_for_scalar", "extra_axis", "generic_shape", "leaf_shape_permuted"],
    "loss_std": ["fewer_times", "extra_axis", "wrong_dim", "scalar", "tree_structure", "terminal_wrong_shape", "generic_shape", "generic_shape_terminal"],
    "plain_function": ["ts0", "ts1", "residual_gets_ode", "ts0_gets_residual", "jetexpand", "prior_exponential", "posterior_is_marginal", "matfree_residual"],
    "lift": ["negative", "too_large", "non_int"],
    "exponential_order": ["too_low", "too_high"],
    "error_shape": ["lifted_constraint"],
    "ensembles": ["too_few"],
    "warning": ["fixed_grid_fixedpoint", "save_at_fixedinterval", "every_step_fixedpoint"],
}


@st.composite
def _case(draw):
    entry = draw(st.sampled_from(sorted(ENTRIES)))
    op = draw(st.sampled_from(ENTRIES[entry]))
    fact = draw(st.sampled_from(gen.FACTS))
    # sampled_from instead of integers(lo, hi): the byte-string decoder used by the coverage-guided driver (vlib/fuzz.py) draws
    # integers from [0, 2^bits) and rejects values below lo, which never terminates for ranges such as [2, 3]
    n = draw(st.sampled_from([2, 3, 4]))
    d = draw(st.sampled_from([2, 3]))
    case = dict(entry=entry, op=op, fact=fact, n=n, d=d, which=draw(st.integers(0, 3)), variant=draw(st.integers(0, 2)))
    if op.startswith("generic_shape"):
        # an arbitrary shape (rank 0..3, axes from the sizes that occur in the problem and their neighbours): whether it is valid
        # is decided by the acceptance model in _valid_shapes(); valid shapes must work, every other shape must be rejected
        sizes = sorted({1, 2, 3, d, d + 1, n})
        case["shape"] = draw(st.lists(st.sampled_from(sizes), min_size=0, max_size=3))
    return case


def strategy(ctx):
    return _case()


def pinned_cases(ctx):
    """Catalogue sweep: the (entry point, corruption, factorisation) product is finite, so it is
    enumerated in full on every run (quick: once per triple with seed-dependent n, d, which, variant;
    thorough: every (which, variant) as well); the random cases on top vary the remaining fields."""
    import itertools

    triples = [(e, o, f) for e in sorted(ENTRIES) for o in ENTRIES[e] for f in gen.FACTS]
    extra = [(0, 0)] if ctx.tier == "quick" else list(itertools.product(range(4), range(3)))
    out = []
    for i, ((e, o, f), (w, v)) in enumerate(itertools.product(triples, extra)):
        if i % ctx.nshards != ctx.shard:
            continue
        h = common.derive_seed(ctx.seed, i, "c20-sweep")
        if ctx.tier == "quick":
            w, v = (h >> 8) % 4, (h >> 12) % 3
        case = dict(entry=e, op=o, fact=f, n=2 + h % 3, d=2 + (h >> 4) % 2, which=w, variant=v)
        if o.startswith("generic_shape"):
            sizes = sorted({1, 2, 3, case["d"], case["d"] + 1, case["n"]})
            rank = (h >> 16) % 4
            case["shape"] = [sizes[(h >> (20 + 4 * k)) % len(sizes)] for k in range(rank)]
        out.append(("sweep", case))
        if ctx.tier == "quick" and o == "leaf_shape_permuted":
            for w2, v2 in ((0, 0), (0, 1), (1, 0), (1, 1)):
                if (w2, v2) != (case["which"], case["variant"]):
                    out.append(("sweep", {**case, "which": w2, "variant": v2}))
        if ctx.tier == "quick" and e == "error_shape":
            # few triples, cheap: every sub-variant (incl. the scalar-state one) on every run
            for v2 in range(3):
                if v2 != case["variant"]:
                    out.append(("sweep", {**case, "variant": v2, "n": 3}))
    # generic shapes: for every array-valued field x factorisation, every shape that silent broadcasting, raveling or reshaping could
    # swallow (size one; the valid shape with unit axes inserted / an axis replaced by one / transposed / flattened / one axis off by one)
    fields = {"output_scale": ("output_scale", "generic_shape"), "transition_scale": ("transition_scale", "generic_shape"),
              "is_exact": ("is_exact", "generic_shape"), "tcoeffs_std": ("tcoeffs_std", "generic_shape"),
              "loss_std": ("loss_std", "generic_shape"), "loss_std_terminal": ("loss_std", "generic_shape_terminal")}
    i = 0
    for field, (e, o) in sorted(fields.items()):
        for f in gen.FACTS:
            h = common.derive_seed(ctx.seed, field, f, "c20-shapes")
            n, d = 2 + h % 3, 2 + (h >> 4) % 2
            for shape in _swallowable_shapes(_valid_shapes(field, f, d)):
                for v in (range(n) if (field in ("is_exact", "tcoeffs_std") and ctx.tier != "quick") else [(h >> 8) % n]):
                    i += 1
                    if i % ctx.nshards != ctx.shard:
                        continue
                    out.append(("shapes", dict(entry=e, op=o, fact=f, n=n, d=d, which=(h >> 12) % 4, variant=int(v), shape=list(shape))))
    return out


def _swallowable_shapes(valid):
    out = {(), (1,), (1, 1), (1, 1, 1)}
    for v in valid:
        dims = list(v)
        for pos in range(len(dims) + 1):
            out.add(tuple(dims[:pos] + [1] + dims[pos:]))
        for k in range(len(dims)):
            out.add(tuple(1 if j == k else x for j, x in enumerate(dims)))
            out.add(tuple(x + 1 if j == k else x for j, x in enumerate(dims)))
            out.add(tuple(x - 1 if j == k else x for j, x in enumerate(dims)) if dims[k] > 1 else tuple(dims))
        out.add(tuple(reversed(dims)))
        if dims:
            out.add((int(np.prod(dims)),))
        out.add(tuple(dims))
    return sorted(out)


# ------------------------------------------------------------------------------------


def _problem(n, d):
    import jax.numpy as jnp

    from probdiffeq import probdiffeq as pd

    vf = pd.ode(lambda y, /, *, t: -0.5 * y + 0.1 * jnp.sin(t) * jnp.ones_like(y), jacobian=pd.jacobian_materialize())
    u0 = jnp.arange(1.0, d + 1.0) / d
    tcoeffs, _ = pd.jetexpand_ode_padded_scan(num=n - 1)(vf, (u0,), t=0.0)
    return vf, list(tcoeffs)


def _first_use(ssm, prior, vf, strategy_name="filter", lin="ts0", constraint=None):
    """Two fixed-grid steps; returns the solution (numbers)."""
    import jax.numpy as jnp

    from probdiffeq import ivpsolve
    from probdiffeq import probdiffeq as pd

    if constraint is None:
        constraint = ssm.constraint_ode_ts0(vf) if lin == "ts0" else ssm.constraint_ode_ts1(vf)
    strat = {"filter": pd.strategy_filter, "fixedinterval": pd.strategy_smoother_fixedinterval, "fixedpoint": pd.strategy_smoother_fixedpoint}[strategy_name]()
    solver = pd.solver(strategy=strat, constraint=constraint)
    sol = ivpsolve.solve_fixed_grid(solver=solver)(prior, grid=jnp.asarray([0.0, 0.1, 0.2]))
    return sol


def _ctor(ssm, fact, n, d, which, entry):
    """One of the public prior constructors that accepts the field under test; returns (name, build)
    with build(tcoeffs, **field) -> prior.  Everything except the field is valid."""
    import jax.numpy as jnp

    from probdiffeq import probdiffeq as pd

    std = [jnp.asarray(0.1) for _ in range(n)] if fact == "isotropic" else [jnp.ones((d,)) * 0.1 for _ in range(n)]
    lin = pd.ode_autonomous_order_arbitrary(lambda *a: -a[-1], num_tcoeffs_in_args=n, jacobian=pd.jacobian_materialize())
    table = {
        "wiener": lambda tc, **kw: ssm.prior_wiener_integrated(tc, **kw),
        "wiener+diffuse_derivatives": lambda tc, **kw: ssm.prior_wiener_integrated(tc, diffuse_derivatives=1, **kw),
        "wiener_diffuse": lambda tc, **kw: ssm.prior_wiener_integrated_diffuse(tc, std, **kw),
        "exponential": lambda tc, **kw: ssm.prior_exponential(lin, tc, **kw),
        "exponential_diffuse": lambda tc, **kw: ssm.prior_exponential_diffuse(lin, tc, std, **kw),
    }
    names = {
        "output_scale": ["wiener", "wiener_diffuse", "exponential", "wiener+diffuse_derivatives"],
        "is_exact": ["wiener", "wiener+diffuse_derivatives", "exponential", "wiener"],
        "tcoeffs": ["wiener", "wiener_diffuse", "exponential", "exponential_diffuse"],
    }[entry]
    name = names[which % len(names)]
    if name.startswith("exponential") and fact != "dense":  # exponential priors exist for the dense model only
        name = names[(which + 1) % 2]
    return name, table[name]


def _scale_valid(fact, d):
    import jax.numpy as jnp

    return jnp.asarray(2.0) if fact == "isotropic" else jnp.ones((d,)) * 2.0


def _valid_shapes(field, fact, d, N=3):
    """Acceptance model for array-valued fields, transcribed from the library's checks and messages."""
    iso = fact == "isotropic"
    return {
        "output_scale": [()] if iso else [(d,)],                      # one scale (isotropic) / one per state entry
        "transition_scale": [(d,)] if fact == "blockdiag" else [()],  # shape of prototype_output_scale_calibrated()
        "is_exact": [()] if iso else [(), (d,)],                      # a flag per coefficient, or per entry of the coefficient
        "tcoeffs_std": [()] if iso else [(d,)],
        "loss_std": [(N,)] if iso else [(N, d)],
        "loss_std_terminal": [()] if iso else [(d,)],
    }[field]


def _broadcastable(a, b):
    try:
        return np.broadcast_shapes(tuple(a), tuple(b)) == tuple(b)
    except ValueError:
        return False


def _attempt(fn):
    """Run fn; returns (raised: bool, description)."""
    with warnings.catch_warnings():
        warnings.simplefilter("ignore")
        try:
            out = fn()
        except Exception as e:  # noqa: BLE001  (the contract: any Python exception is a loud rejection)
            return True, f"{type(e).__name__}"
    import jax

    shapes = jax.tree.map(lambda x: np.shape(x), jax.tree.leaves(out)[:3])
    return False, f"returned arrays with shapes {shapes}"


def check_case(case):
    import jax
    import jax.numpy as jnp

    from probdiffeq import ivpsolve
    from probdiffeq import probdiffeq as pd

    res = common.Result()
    entry, op, fact, n, d = case["entry"], case["op"], case["fact"], case["n"], case["d"]
    res.label(f"entry:{entry}", f"op:{entry}/{op}", f"fact:{fact}")
    ssm = lib.ssm(fact)
    vf, tcoeffs = _problem(n, d)
    generic = None    # (field, shape) of a generic-shape case: validity comes from the acceptance model
    valid = None      # callable: the uncorrupted twin (must work)
    corrupt = None    # callable: the corrupted call (must raise)
    broadcastable = False
    skip = None

    if entry == "output_scale":
        good = _scale_valid(fact, d)
        if op == "extra_axis":
            bad = good[..., None] if fact != "isotropic" else good[None]
            broadcastable = True
        elif op == "wrong_length":
            bad = jnp.ones((d + 1,)) if fact != "isotropic" else jnp.ones((d,))
        elif op == "scalar_for_vector":
            bad = jnp.asarray(2.0)
            broadcastable = True
            skip = "isotropic expects a scalar" if fact == "isotropic" else None
        elif op == "vector_for_scalar":
            bad = jnp.ones((d,)) * 2.0
            broadcastable = True
            skip = "only the isotropic model expects a scalar" if fact != "isotropic" else None
        elif op == "length_one":
            bad = jnp.ones((1,)) * 2.0
            broadcastable = True
        elif op == "generic_shape":
            bad = jnp.ones(tuple(case["shape"])) * 2.0
            generic = ("output_scale", tuple(case["shape"]))
        else:
            bad = [good]
        cname, build = _ctor(ssm, fact, n, d, case["which"], entry)
        res.label(f"ctor:{cname}")
        valid = lambda: _first_use(ssm, build(tcoeffs, output_scale=good), vf)  # noqa: E731
        corrupt = lambda: _first_use(ssm, build(tcoeffs, output_scale=bad), vf)  # noqa: E731

    elif entry == "transition_scale":
        prior = ssm.prior_wiener_integrated(tcoeffs)
        good = jnp.ones_like(prior.init.prototype_output_scale_calibrated())
        if op == "extra_axis":
            bad = good[..., None] if good.ndim else good[None]
        elif op == "wrong_length":
            bad = jnp.ones((d + 1,))
        elif op == "vector_for_scalar":
            bad = jnp.ones((d,))
            skip = "block-diagonal calibrated scales are vectors" if fact == "blockdiag" else None
        elif op == "generic_shape":
            bad = jnp.ones(tuple(case["shape"]))
            generic = ("transition_scale", tuple(case["shape"]))
        else:
            bad = jnp.ones((1,))
            skip = "length-one vector is the valid shape for d=1" if (fact == "blockdiag" and d == 1) else None
        broadcastable = True
        valid = lambda: prior.transition(dt=0.1, output_scale=good).noise.cholesky_flat  # noqa: E731
        corrupt = lambda: prior.transition(dt=0.1, output_scale=bad).noise.cholesky_flat  # noqa: E731

    elif entry == "is_exact":
        leaf = lambda v: jnp.asarray(v) if fact == "isotropic" else jnp.asarray(v) * jnp.ones((d,), dtype=jnp.asarray(v).dtype)  # noqa: E731
        good = [leaf(True) for _ in range(n)]
        if op == "int_flags":
            bad = [leaf(1) for _ in range(n)]
            broadcastable = True
        elif op == "float_flags":
            bad = [leaf(1.0) for _ in range(n)]
            broadcastable = True
        elif op == "wrong_length":
            bad = [jnp.ones((d + 1,), dtype=bool) for _ in range(n)]
        elif op == "wrong_leaf_shape":
            bad = [jnp.ones((d, 1), dtype=bool) if fact != "isotropic" else jnp.ones((d,), dtype=bool) for _ in range(n)]
            broadcastable = True
        elif op == "tree_structure":
            bad = [[g] for g in good]
        elif op == "generic_shape":
            k = case["variant"] % n  # one flag leaf gets the drawn shape, the others stay valid
            bad = [jnp.ones(tuple(case["shape"]), dtype=bool) if i == k else g for i, g in enumerate(good)]
            generic = ("is_exact", tuple(case["shape"]))
        else:
            bad = good + [good[0]]
        cname, build = _ctor(ssm, fact, n, d, case["which"], entry)
        res.label(f"ctor:{cname}")
        valid = lambda: _first_use(ssm, build(tcoeffs, is_exact=good), vf)  # noqa: E731
        corrupt = lambda: _first_use(ssm, build(tcoeffs, is_exact=bad), vf)  # noqa: E731

    elif entry == "tcoeffs":
        if op == "array_instead_of_list":
            bad = jnp.stack(tcoeffs)
            broadcastable = True
        elif op == "ragged_leaves":
            bad = tcoeffs[:-1] + [jnp.concatenate([tcoeffs[-1], tcoeffs[-1][:1]])]
        else:
            bad = 1.0
        cname, build = _ctor(ssm, fact, n, d, case["which"], entry)
        res.label(f"ctor:{cname}")
        valid = lambda: _first_use(ssm, build(tcoeffs), vf)  # noqa: E731
        corrupt = lambda: _first_use(ssm, build(bad), vf)  # noqa: E731

    elif entry == "tcoeffs_std":
        if fact == "isotropic":
            good = [jnp.asarray(0.1) for _ in range(n)]
        else:
            good = [jnp.ones((d,)) * 0.1 for _ in range(n)]
        if op == "tree_structure_same_size":
            # same flattened size, different structure: one container holding everything
            if fact == "isotropic":
                bad = [jnp.stack(good)] if n > 1 else None
            else:
                bad = [jnp.concatenate(good[:2])] + good[2:] if n >= 2 else None
                # regroup: first leaf has 2d entries, so that the total size equals n*d only if one leaf is dropped
                bad = [jnp.concatenate(good[:2])] + good[2:] + []
                bad = [jnp.ones((d * n,)) * 0.1]
            broadcastable = True
        elif op == "wrong_length":
            bad = good[:-1]
        elif op == "vector_for_scalar":
            bad = [jnp.ones((d,)) * 0.1 for _ in range(n)]
            broadcastable = True
            skip = "only the isotropic model expects scalar leaves" if fact != "isotropic" else None
        elif op == "generic_shape":
            k = case["variant"] % n
            bad = [jnp.ones(tuple(case["shape"])) * 0.1 if i == k else g for i, g in enumerate(good)]
            generic = ("tcoeffs_std", tuple(case["shape"]))
        elif op == "leaf_shape_permuted":
            # matrix-valued / dict-valued state: same tree structure, same rank per leaf, same total size - but other leaf shapes
            skip = "isotropic standard deviations are scalars per coefficient" if fact == "isotropic" else None
            if case["variant"] % 2 == 0:
                u0 = jnp.arange(1.0, 7.0).reshape(2, 3) / 6.0
                wrong = lambda g: jnp.ones((3, 2)) * 0.1  # noqa: E731
            else:
                u0 = {"a": jnp.asarray([0.5, 1.0]), "b": jnp.asarray([0.25, 0.5, 0.75])}
                wrong = lambda g: {"a": jnp.ones((3,)) * 0.1, "b": jnp.ones((2,)) * 0.1}  # noqa: E731
            vf = pd.ode(lambda y, /, *, t: jax.tree.map(lambda x: -0.5 * x, y), jacobian=pd.jacobian_materialize())
            tcoeffs = list(pd.jetexpand_ode_padded_scan(num=n - 1)(vf, (u0,), t=0.0)[0])
            good = [jax.tree.map(lambda x: jnp.ones_like(x) * 0.1, u0) for _ in range(n)]
            k = case["which"] % n
            # the whole container consistently permuted (which even), or one coefficient only (which odd)
            bad = [wrong(g) if (i == k or case["which"] % 2 == 0) else g for i, g in enumerate(good)]
            broadcastable = True
        else:
            bad = [g[..., None] for g in good] if fact != "isotropic" else [g[None] for g in good]
            broadcastable = True
        if fact == "dense" and case["which"] % 2 == 1 and op != "leaf_shape_permuted":
            lin = pd.ode_autonomous_order_arbitrary(lambda *a: -a[-1], num_tcoeffs_in_args=n, jacobian=pd.jacobian_materialize())
            build = lambda sd: ssm.prior_exponential_diffuse(lin, tcoeffs, sd)  # noqa: E731
            res.label("ctor:exponential_diffuse")
        else:
            build = lambda sd: ssm.prior_wiener_integrated_diffuse(tcoeffs, sd)  # noqa: E731
            res.label("ctor:wiener_diffuse")
        valid = lambda: _first_use(ssm, build(good), vf)  # noqa: E731
        corrupt = lambda: _first_use(ssm, build(bad), vf)  # noqa: E731

    elif entry == "loss_std":
        prior = ssm.prior_wiener_integrated(tcoeffs)
        sol = _first_use(ssm, prior, vf, strategy_name="fixedinterval")
        N = 3
        data = sol.u.mean[0]
        good = jnp.ones((N,)) * 0.1 if fact == "isotropic" else jnp.ones((N, d)) * 0.1
        lt = pd.loss_lml_timeseries()
        term = pd.loss_lml_terminal_values()
        last = jax.tree.map(lambda s: s[-1], sol.u)
        if op == "fewer_times":
            bad = good[:-1]
        elif op == "extra_axis":
            bad = good[..., None]
            broadcastable = True
        elif op == "wrong_dim":
            bad = jnp.ones((N, d + 1)) * 0.1 if fact != "isotropic" else jnp.ones((N, d)) * 0.1
            broadcastable = fact == "isotropic"
        elif op == "scalar":
            bad = jnp.asarray(0.1)
            broadcastable = True
        elif op == "tree_structure":
            bad = [good]
        elif op == "generic_shape":
            bad = jnp.ones(tuple(case["shape"])) * 0.1
            generic = ("loss_std", tuple(case["shape"]))
        if op in ("terminal_wrong_shape", "generic_shape_terminal"):
            goodt = good[-1]
            badt = jnp.ones((d,)) * 0.1 if fact == "isotropic" else jnp.asarray(0.1)
            if op == "generic_shape_terminal":
                badt = jnp.ones(tuple(case["shape"])) * 0.1
                generic = ("loss_std_terminal", tuple(case["shape"]))
            broadcastable = True
            valid = lambda: term(data[-1], marginals=last, std=goodt)  # noqa: E731
            corrupt = lambda: term(data[-1], marginals=last, std=badt)  # noqa: E731
        else:
            valid = lambda: lt(data, posterior=sol.solution_full.posterior, std=good)  # noqa: E731
            corrupt = lambda: lt(data, posterior=sol.solution_full.posterior, std=bad)  # noqa: E731

    elif entry == "plain_function":
        plain = lambda y, /, *, t: -0.5 * y  # noqa: E731
        prior = ssm.prior_wiener_integrated(tcoeffs)
        residual = pd.residual_from_ode(vf)
        if op == "ts0":
            valid = lambda: _first_use(ssm, prior, vf, lin="ts0")  # noqa: E731
            corrupt = lambda: _first_use(ssm, prior, vf, constraint=ssm.constraint_ode_ts0(plain))  # noqa: E731
        elif op == "ts1":
            valid = lambda: _first_use(ssm, prior, vf, lin="ts1")  # noqa: E731
            corrupt = lambda: _first_use(ssm, prior, vf, constraint=ssm.constraint_ode_ts1(plain))  # noqa: E731
        elif op == "residual_gets_ode":
            valid = lambda: _first_use(ssm, prior, vf, constraint=ssm.constraint_residual(residual))  # noqa: E731
            corrupt = lambda: _first_use(ssm, prior, vf, constraint=ssm.constraint_residual(vf))  # noqa: E731
        elif op == "ts0_gets_residual":
            valid = lambda: _first_use(ssm, prior, vf, lin="ts0")  # noqa: E731
            corrupt = lambda: _first_use(ssm, prior, vf, constraint=ssm.constraint_ode_ts0(residual))  # noqa: E731
        elif op == "matfree_residual":
            def run_mf(r):
                mf = pd.state_space_model_matfree(key=jax.random.PRNGKey(1), num_ensembles=n + 3)
                solver = pd.solver(strategy=pd.strategy_filter(), constraint=mf.constraint_residual(r))
                return ivpsolve.solve_fixed_grid(solver=solver)(mf.prior_wiener_integrated(tcoeffs), grid=jnp.asarray([0.0, 0.1, 0.2]))

            valid = lambda: run_mf(residual)  # noqa: E731
            corrupt = lambda: run_mf(vf if case["variant"] else plain)  # noqa: E731
        elif op == "jetexpand":
            alg = [pd.jetexpand_ode_padded_scan(num=2), pd.jetexpand_ode_unroll(num=2), pd.jetexpand_ode_via_jvp(num=2)][case["variant"]]
            valid = lambda: alg(vf, (tcoeffs[0],), t=0.0)[0]  # noqa: E731
            corrupt = lambda: alg(plain, (tcoeffs[0],), t=0.0)[0]  # noqa: E731
        elif op == "prior_exponential":
            skip = "exponential priors exist for the dense model only" if fact != "dense" else None
            lin_ode = pd.ode_autonomous_order_arbitrary(lambda *a: -a[-1], num_tcoeffs_in_args=n, jacobian=pd.jacobian_materialize())
            valid = lambda: _first_use(ssm, ssm.prior_exponential(lin_ode, tcoeffs), vf)  # noqa: E731
            corrupt = lambda: _first_use(ssm, ssm.prior_exponential(lambda *a: -a[-1], tcoeffs), vf)  # noqa: E731
        else:  # time-series loss handed the marginals (a filter-like object) instead of the posterior
            sol = _first_use(ssm, prior, vf, strategy_name="fixedinterval")
            std = jnp.ones((3,)) * 0.1 if fact == "isotropic" else jnp.ones((3, d)) * 0.1
            lt = pd.loss_lml_timeseries()
            valid = lambda: lt(sol.u.mean[0], posterior=sol.solution_full.posterior, std=std)  # noqa: E731
            corrupt = lambda: lt(sol.u.mean[0], posterior=sol.u, std=std)  # noqa: E731

    elif entry == "lift":
        prior = ssm.prior_wiener_integrated(tcoeffs)
        max_lift = n - 2  # first-order ODE: output index 1, coefficients 0..n-1
        bad = {"negative": -1, "too_large": max_lift + 1 + case["variant"], "non_int": 1.0}[op]
        use_res = case["which"] % 2 == 1
        if use_res:
            r = pd.residual_from_ode(vf)
            valid = lambda: _first_use(ssm, prior, vf, constraint=ssm.constraint_residual(r.jet_lift(lift_by=max_lift)))  # noqa: E731
            corrupt = lambda: _first_use(ssm, prior, vf, constraint=ssm.constraint_residual(r.jet_lift(lift_by=bad)))  # noqa: E731
        else:
            valid = lambda: _first_use(ssm, prior, vf, constraint=ssm.constraint_ode_ts0(vf.jet_lift(lift_by=max_lift)))  # noqa: E731
            corrupt = lambda: _first_use(ssm, prior, vf, constraint=ssm.constraint_ode_ts0(vf.jet_lift(lift_by=bad)))  # noqa: E731

    elif entry == "exponential_order":
        skip = "exponential priors exist for the dense model only" if fact != "dense" else None
        k_bad = n - 1 if op == "too_low" else n + 1
        mk = lambda k: pd.ode_autonomous_order_arbitrary(lambda *a: -a[-1], num_tcoeffs_in_args=k, jacobian=pd.jacobian_materialize())  # noqa: E731
        valid = lambda: _first_use(ssm, ssm.prior_exponential(mk(n), tcoeffs), vf)  # noqa: E731
        corrupt = lambda: _first_use(ssm, ssm.prior_exponential(mk(k_bad), tcoeffs), vf)  # noqa: E731

    elif entry == "error_shape":
        # residual-based error estimate on a jet-lifted constraint (more outputs than state entries)
        skip = "needs at least one spare coefficient" if n < 3 else None
        if case["variant"] == 2:
            # scalar problem (state of shape (1,)): a one-entry *reference* must not excuse a two-entry error estimate
            d = 1
            vf, tcoeffs = _problem(n, d)
            res.label("error_shape:scalar_state")

        def run(lifted):
            prior = ssm.prior_wiener_integrated(tcoeffs)
            c = ssm.constraint_ode_ts0(vf.jet_lift(lift_by=1) if lifted else vf)
            solver = pd.solver(strategy=pd.strategy_filter(), constraint=c)
            error = pd.error_residual_std(constraint=c)
            s0 = solver.init(t=jnp.asarray(0.0), u=prior, damp=0.0)
            s1 = solver.step(state=s0, dt=0.1, damp=0.0)
            return error.estimate_error_norm(error.init_error(), previous=s0, proposed=s1, dt=0.1, atol=1e-3, rtol=1e-3, damp=0.0)[0]

        # the isotropic model reports one scalar std per output: (1,)-shaped errors are documented as acceptable
        if fact == "isotropic":
            skip = "isotropic residual errors are scalar per coefficient"
        valid = lambda: run(False)  # noqa: E731
        corrupt = lambda: run(True)  # noqa: E731

    elif entry == "ensembles":
        def run(S):
            key = jax.random.PRNGKey(1)
            mf = pd.state_space_model_matfree(key=key, num_ensembles=S)
            prior = mf.prior_wiener_integrated(tcoeffs)
            c = mf.constraint_ode_ts1(vf)
            solver = pd.solver(strategy=pd.strategy_filter(), constraint=c)
            return ivpsolve.solve_fixed_grid(solver=solver)(prior, grid=jnp.asarray([0.0, 0.1, 0.2]))

        valid = lambda: run(n + 3)  # noqa: E731
        corrupt = lambda: run(max(1, n - 1 - case["variant"] % 2) if n - 1 - case["variant"] % 2 >= 2 else n - 1)  # noqa: E731
        broadcastable = True

    elif entry == "warning":
        return _warning(res, case, ssm, vf, tcoeffs)

    if skip is not None:
        raise common.Inconclusive(f"not a corruption: {skip}")
    res.nontrivial = bool(broadcastable)

    ok, desc = _attempt(valid)
    if ok:
        # the uncorrupted twin failed: the harness' idea of a valid call is wrong -> harness error, not a finding
        raise RuntimeError(f"valid twin of {entry}/{op} ({fact}, n={n}, d={d}) raised {desc}")
    res.label("valid_twin_ok")
    if generic is not None:
        field, shape = generic
        ok_shapes = _valid_shapes(field, fact, d)
        good_shape = ok_shapes[-1]
        res.nontrivial = shape not in ok_shapes and _broadcastable(shape, good_shape)
        if shape in ok_shapes:
            # a documented-acceptable shape: must work like the twin (a library that rejects it is not what C20 is about, but it
            # would mean the acceptance model is wrong -> harness error rather than a silent pass)
            raised, desc = _attempt(corrupt)
            if raised:
                raise RuntimeError(f"acceptance model says {field} of shape {shape} is valid ({fact}, n={n}, d={d}) but the library raised {desc}")
            res.label("generic:valid_shape")
            return res
        res.label("generic:invalid_shape")
    raised, desc = _attempt(corrupt)
    if not raised:
        res.violate(f"accepted:{entry}/{op}", f"{entry}/{op} ({fact}, n={n}, d={d}{', shape=' + str(generic[1]) if generic else ''}): corrupted input was accepted and {desc}")
    return res


def _warning(res, case, ssm, vf, tcoeffs):
    import jax.numpy as jnp

    from probdiffeq import ivpsolve
    from probdiffeq import probdiffeq as pd
    from probdiffeq.util import test_util

    op = case["op"]
    res.nontrivial = True
    c = ssm.constraint_ode_ts0(vf)
    error = pd.error_residual_std(constraint=c)
    with warnings.catch_warnings(record=True) as rec:
        warnings.simplefilter("always")
        with common.lib_call("pairing"):
            if op == "fixed_grid_fixedpoint":
                ivpsolve.solve_fixed_grid(solver=pd.solver(strategy=pd.strategy_smoother_fixedpoint(), constraint=c))
                remedy = ["filter", "fixed-interval"]
            elif op == "save_at_fixedinterval":
                ivpsolve.solve_adaptive_save_at(solver=pd.solver(strategy=pd.strategy_smoother_fixedinterval(), constraint=c), error=error)
                remedy = ["filter", "fixed-point"]
            else:
                test_util.solve_adaptive_save_every_step(pd.solver(strategy=pd.strategy_smoother_fixedpoint(), constraint=c), error)
                remedy = ["filter", "fixed-interval"]
    res.label("valid_twin_ok")
    msgs = [str(w.message).lower() for w in rec]
    if not msgs:
        res.violate(f"warning:missing/{op}", f"{op}: unsuitable strategy/routine pairing did not warn")
    elif not any(all(r in m for r in remedy) for m in msgs):
        res.violate(f"warning:no_remedy/{op}", f"{op}: warning does not name the remedy {remedy}: {msgs[0][:200]}")
    # and suitable pairings must stay silent
    with warnings.catch_warnings(record=True) as rec2:
        warnings.simplefilter("always")
        ivpsolve.solve_fixed_grid(solver=pd.solver(strategy=pd.strategy_smoother_fixedinterval(), constraint=c))
        ivpsolve.solve_adaptive_save_at(solver=pd.solver(strategy=pd.strategy_smoother_fixedpoint(), constraint=c), error=error)
    if [w for w in rec2 if "should not be used" in str(w.message)]:
        res.violate("warning:spurious", "a suitable strategy/routine pairing warns")
    return res
