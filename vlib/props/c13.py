"""C13 - posterior samples are exact affine images of the normal draws.

The library reaches randomness only through probdiffeq.backend.random.  The harness replaces
`split` by a labelling scheme (child labels k*M1 + (i+1)*M2 in wrapping 64-bit arithmetic: distinct children of one key always differ, labels of different keys coincide with probability ~2^-64 per pair) and `normal` by a table lookup
by label, which turns a sample into a differentiable function of the table of base draws.
"""

import numpy as np
from hypothesis import strategies as st

from vlib import common, gen, lib, ssmcase
from vlib import solverkit as sk
from vlib.ref import kalman as K

ID = "C13"
BUDGET = {"quick": 480, "thorough": 12000}
LEVEL = "exploration"
TECHNIQUE = "property-based testing (Hypothesis) with labelled-key instrumentation of the RNG layer: exact affine map of the sampler via jacfwd, compared with the joint law rebuilt from the backward factorisation"
LEVEL_TEXT = (
    "Generated-input search over smoother posteriors (fixed-grid/fixed-interval and checkpoint/fixed-point, 3 factorisations, calibrations, "
    "non-unit preconditioners, non-zero backward offsets) and priors on random grids. With all base draws zero the sample must equal the "
    "smoothing means at every output time; the Jacobian M of the sample w.r.t. the table of draws (exact, the map is affine) must satisfy "
    "M M^T = joint smoothing covariance (rebuilt from the returned backward factorisation in 50 digits; for priors: the exact IWP joint "
    "law); every draw label is used exactly once (no key reuse, also across batched samples); sample shapes are prepended."
    ' Sample shapes include non-palindromic ones ((2,3), (3,1), (1,2,3)), which must be prepended in order.'
)
LEVEL_NOTE = "Trusted: harness-side patching of probdiffeq.backend.random.{split,normal} (64-bit hashed labels: any split width is supported); jax.jacfwd of an affine map; mpmath recomposition of the joint law. Gram comparison entrywise at max(1e-6, 64 eps x sum of |terms| of the backward chain), entries whose bound exceeds 1e-3 are not compared (counted)."
RULE = (
    "case = (source smoother-posterior|prior-on-grid, structure from a seeded pool, problem values, sample shape); non-trivial = >= 3 output "
    "times with a non-zero backward offset and a non-unit preconditioner; distinct by JSON hash"
)
ASSUMPTIONS = ["x64; jacobian_materialize(); IWP priors"]
REQUIRED_LABELS = ["src:posterior", "src:prior", "fact:dense", "fact:isotropic", "fact:blockdiag", "shape:()", "shape:(n,)", "shape:(n,m)", "shape:non_palindromic"]
MAX_INCONCLUSIVE = 0.4
M1, M2 = 6364136223846793005, 1442695040888963407  # odd 64-bit multipliers (wrapping int64 arithmetic); any split width is supported


def strategy(ctx):
    rng = ctx.rng("c13-pool")
    size = 2 if ctx.tier == "quick" else 6
    pool_fixed = [ssmcase.draw_structure(rng, strategies=("fixedinterval",), nmax=5, steps=(2, 8), calibs=("none", "mle", "dynamic")) for _ in range(size)]
    pool_fp = []
    for _ in range(size):
        cfg = ssmcase.draw_structure(rng, strategies=("fixedpoint",), nmax=4, dmax=2, inits=("exact", "inexact"), steps=(2, 2), calibs=("none", "mle", "dynamic"))
        cfg["num_ckpt"] = int(rng.integers(3, 7))
        cfg["clip"] = False
        pool_fp.append(cfg)
    pool_prior = [dict(fact=str(rng.choice(gen.FACTS)), n=int(rng.integers(1, 5)), d=int(rng.integers(1, 4)), num_steps=int(rng.integers(2, 7)),
                       init=str(rng.choice(["inexact", "exact"]))) for _ in range(size)]

    @st.composite
    def one(draw):
        src = draw(st.sampled_from(["posterior", "posterior", "prior"]))
        if src == "posterior":
            if draw(st.booleans()):
                case = draw(ssmcase.values(draw(st.sampled_from(pool_fixed))))
                case["mode"] = "fixed_grid"
            else:
                cfg = draw(st.sampled_from(pool_fp))
                case = draw(ssmcase.adaptive_values(cfg))
                case["fracs"] = sorted(draw(st.lists(st.floats(0.02, 0.98), min_size=cfg["num_ckpt"] - 2, max_size=cfg["num_ckpt"] - 2, unique=True)))
                case["mode"] = "fixedpoint"
        else:
            cfg = draw(st.sampled_from(pool_prior))
            case = dict(cfg=cfg, mode="prior", tc=draw(gen.mat(cfg["n"], cfg["d"], gen.quarter(-6, 6))),
                        incs=draw(gen.increments(cfg["num_steps"], 1e-2, 1.0)), t0=draw(gen.quarter(-4, 4)),
                        base=[10.0**e for e in draw(gen.vec(cfg["d"] if cfg["fact"] != "isotropic" else 1, gen.exponent(-1.0, 1.0)))],
                        reverse=draw(st.booleans()))
        case["src"] = src
        case["shape"] = draw(st.sampled_from([[], [], [2], [3], [2, 2], [2, 3], [3, 1], [1, 2, 3]]))
        return case

    return one()


# ------------------------------------------------------------------------------------ RNG patch


class Patch:
    """Context manager replacing split/normal of probdiffeq.backend.random."""

    def __init__(self, mode, labels=None, table=None):
        self.mode, self.labels, self.table = mode, labels, table
        self.seen = []

    def __enter__(self):
        import jax
        import jax.numpy as jnp
        from probdiffeq.backend import random as R

        self.R = R
        self.orig = (R.split, R.normal)

        def split(key, num):
            return key * jnp.asarray(M1, dtype=key.dtype) + jnp.arange(1, num + 1, dtype=key.dtype) * jnp.asarray(M2, dtype=key.dtype)

        def normal(key, /, shape, dtype=None):
            if self.mode == "record":
                def cb(k):
                    self.seen.append((int(np.asarray(k)), tuple(shape)))

                jax.debug.callback(cb, key)
                return jnp.zeros(shape)
            sel = (jnp.asarray(self.labels) == key).astype(float)
            return jnp.tensordot(sel, self.table, axes=1).reshape(shape)

        R.split, R.normal = split, normal
        return self

    def __exit__(self, *a):
        self.R.split, self.R.normal = self.orig
        return False


def _sample_flat(seq, n, d, shape=()):
    """Sample -> array (*shape, N, n*d) in coefficient-major order."""
    import jax
    import jax.numpy as jnp

    key = jnp.asarray(1, dtype=jnp.int64)
    smp = seq.sample(key, shape=tuple(shape))
    leaves = [jnp.reshape(x, x.shape[: len(shape) + 1] + (-1,)) for x in smp]  # n leaves, each (*shape, N, d)
    return jnp.concatenate(leaves, axis=-1)


def check_case(case):
    res = common.Result()
    cfg = case["cfg"]
    fact, n, d = cfg["fact"], cfg["n"], cfg["d"]
    shape = tuple(case["shape"])
    res.label(f"src:{case['src']}", f"fact:{fact}", "shape:" + {0: "()", 1: "(n,)", 2: "(n,m)", 3: "(n,m,k)"}[len(shape)], *(["shape:non_palindromic"] if list(shape) != list(shape)[::-1] else []))
    if case["src"] == "prior":
        seq, means_ref, joint_ref, N, abs_scale = _prior_sequence(case)
    else:
        seq, means_ref, joint_ref, N, abs_scale = _posterior_sequence(res, case)
    import jax
    import jax.numpy as jnp

    # pass 1: record labels (and shapes) of all draws; all draws are zero -> sample must be the means
    with Patch("record") as pr:
        with common.lib_call("sample(record)"):
            smp0 = np.asarray(_sample_flat(seq, n, d, shape))
            jax.effects_barrier()
    nsamp = int(np.prod(shape)) if shape else 1
    if smp0.shape != shape + (N, n * d):
        res.violate("shape", f"sample has shape {smp0.shape}, expected {shape + (N, n * d)} (requested shape prepended)")
        return res
    labels = [k for k, _ in pr.seen]
    if len(set(labels)) != len(labels):
        res.violate("key_reuse", f"{len(labels) - len(set(labels))} draw(s) reuse a random key (labels {sorted(labels)[:8]}...)")
    if len(labels) != nsamp * N:
        res.violate("draw_count", f"{len(labels)} normal draws for {nsamp} sample(s) over {N} times")
    scale_m = np.max(np.abs(means_ref), axis=0) + np.sqrt(np.clip(np.max(np.asarray([np.diag(joint_ref[(i, i)]) for i in range(N)]), axis=0), 0, None)) + 1e-300
    # condition-aware: the zero-draw sample is a chain of affine maps; its float64 evaluation
    # carries errors proportional to sum |A||x| + |b| (cancellation), not to the final magnitude
    em = float(np.max(np.abs(smp0.reshape((-1, N, n * d)) - means_ref[None]) / (scale_m[None, None] + 1e-3 * abs_scale[None])))
    res.metric("zero_draw/tol", em / 1e-7)
    if not em <= 1e-7:
        res.violate("zero_draw" + (":gross" if em > 1e-5 else ""), f"with all draws zero the sample differs from the smoothing means by {em:.3e} (relative)")
    if shape:
        return res

    # pass 2: the exact affine map.  One draw per output time; all draws share one shape.
    shapes = {s for _, s in pr.seen}
    if len(shapes) != 1:
        res.violate("draw_shapes", f"draws have different shapes {shapes}")
        return res
    dshape = shapes.pop()
    R = len(labels)
    size = int(np.prod(dshape))

    def f(table):
        with Patch("table", labels=np.asarray(labels), table=table.reshape((R, size))):
            return _sample_flat(seq, n, d, ()).reshape(-1)

    with common.lib_call("sample(jacfwd)"):
        M = np.asarray(jax.jacfwd(f)(jnp.zeros((R, size))))
    M = M.reshape(N * n * d, R * size)
    gram = M @ M.T
    # reference joint covariance over all output times
    J = np.zeros((N * n * d, N * n * d))
    for i in range(N):
        for j in range(i, N):
            blk = joint_ref[(i, j)]
            J[i * n * d : (i + 1) * n * d, j * n * d : (j + 1) * n * d] = blk
            J[j * n * d : (j + 1) * n * d, i * n * d : (i + 1) * n * d] = blk.T
    dg = np.sqrt(np.clip(np.diag(J), 0, None))
    big = np.max(dg.reshape(N, n, d), axis=0).reshape(-1)  # per-coordinate largest std over time
    floor = np.tile(big, N) * 1e-5
    sc = np.outer(dg + floor, dg + floor) + 1e-300
    # condition-aware, entrywise: evaluating the chain x_i = A_i x_{i+1} + L_i xi_i in float64 carries errors proportional to the
    # sum of the absolute values of the terms (|A_i| ... |A_{j-1}| |P_j| ... : products of backward gains cancel massively at small
    # steps / high orders - measured: 2e13 x the result for the highest coefficient at h = 0.01, n = 5), not to the result. Entries
    # whose bound exceeds 1e-3 (correlation-normalised) are not compared (counted), the others at max(1e-6, 64 eps x sum |terms|).
    tol = np.full_like(J, 1e-6)
    if case["src"] != "prior" and _LAST_FACTORS[0] is not None:
        bw, PT = _LAST_FACTORS[0]
        Gabs = np.zeros_like(J)
        nd = n * d
        diag_abs = [None] * N
        diag_abs[-1] = np.abs(PT)
        for i in range(N - 2, -1, -1):
            Aa = np.abs(bw[i][0])
            diag_abs[i] = Aa @ diag_abs[i + 1] @ Aa.T + np.abs(bw[i][2])
        for j in range(N):
            Mx = diag_abs[j]
            Gabs[j * nd : (j + 1) * nd, j * nd : (j + 1) * nd] = Mx
            for i in range(j - 1, -1, -1):
                Mx = np.abs(bw[i][0]) @ Mx
                Gabs[i * nd : (i + 1) * nd, j * nd : (j + 1) * nd] = Mx
                Gabs[j * nd : (j + 1) * nd, i * nd : (i + 1) * nd] = Mx.T
        tol = np.maximum(tol, 64.0 * np.finfo(float).eps * Gabs / sc)
    checkable = tol <= 1e-3
    if not np.all(checkable):
        res.label("gram:some_entries_illconditioned")
    if not np.any(checkable):
        res.label("gram:skipped_illconditioned")
        return res
    ratio = np.where(checkable, (np.abs(gram - J) / sc) / tol, 0.0)
    eg = float(np.max(np.where(checkable, np.abs(gram - J) / sc, 0.0)))
    worst = float(np.max(ratio))
    res.metric("gram/tol", worst)
    if not worst <= 1.0:
        res.violate("gram" + (":gross" if eg > 1e-3 else ""), f"Gram matrix of the sampling map differs from the joint covariance by {eg:.3e} (correlation-normalised; {worst:.1f} x the entrywise condition-aware tolerance)")
    return res


def _prior_sequence(case):
    import jax.numpy as jnp

    from probdiffeq import probdiffeq as pd

    cfg = case["cfg"]
    fact, n, d = cfg["fact"], cfg["n"], cfg["d"]
    tc = np.asarray(case["tc"], float)
    grid = case["t0"] + np.concatenate([[0.0], np.cumsum(case["incs"])])
    base = np.asarray(case["base"], float)
    base_vec = np.ones(d) * base[0] if fact == "isotropic" else base
    std0 = 0.5 if cfg["init"] == "inexact" else 0.0
    with common.lib_call("from_grid"):
        ssm = lib.ssm(fact)
        pcfg = dict(fact=fact, n=n, d=d, init="inexact" if std0 else "exact", inexact_eps=std0)
        prior = sk.make_prior(ssm, pcfg, [jnp.asarray(tc[i]) for i in range(n)], jnp.asarray(base_vec[0] if fact == "isotropic" else base_vec))
        seq = pd.MarkovSequence.from_grid(prior, grid=jnp.asarray(grid), reverse=False)
    # exact joint law of the prior on the grid (forward Markov chain)
    Nn = K.Num(mp=False)
    N = len(grid)
    q = n - 1
    P = np.eye(n * d) * std0**2
    m = tc.reshape(-1)
    means, covs, Phis = [m], [P], []
    D = np.diag(base_vec**2)
    for k in range(N - 1):
        Phi1, Q1 = K.iwp_1d(q, grid[k + 1] - grid[k], Nn)
        Phi = np.kron(Phi1, np.eye(d))
        Q = np.kron(Q1, D)
        m = Phi @ m
        P = Phi @ P @ Phi.T + Q
        means.append(m), covs.append(P), Phis.append(Phi)
    joint = {}
    for i in range(N):
        Mx = covs[i]
        joint[(i, i)] = Mx
        for j in range(i + 1, N):
            Mx = Mx @ Phis[j - 1].T  # Cov(x_i, x_j) = P_i Phi_i^T ... Phi_{j-1}^T
            joint[(i, j)] = Mx
    abs_scale = [np.abs(means[0])]
    for k in range(N - 1):
        abs_scale.append(np.abs(Phis[k]) @ abs_scale[-1])
    return seq, np.asarray(means), joint, N, np.asarray(abs_scale)


_CACHE = {}
_LAST_FACTORS = [None]


def _joint_from_factors(bw, mT, PT, N, perturb):
    """Joint law over all output times from the terminal marginal and the dense backward conditionals (50 digits).
    perturb > 0: every entry of the factors is moved by a relative `perturb` with a deterministic +-1 pattern - the
    distance between the two joint laws is the accuracy any float64 evaluation of the same factors can attain."""
    Nmp = K.Num(mp=True)

    def pt(x):
        x = np.asarray(x, float)
        if perturb:
            sign = np.where(np.arange(x.size).reshape(x.shape) % 2 == 0, 1.0, -1.0)
            x = x * (1.0 + perturb * sign)
        return Nmp.arr(x)

    means, covs = [None] * N, [None] * N
    means[-1], covs[-1] = pt(mT), Nmp.arr(np.asarray(PT, float))
    A_list = [None] * (N - 1)
    offset_nonzero = False
    for i in range(N - 2, -1, -1):
        A, b, Q = pt(bw[i][0]), pt(bw[i][1]), Nmp.arr(np.asarray(bw[i][2], float))
        A_list[i] = A
        offset_nonzero = offset_nonzero or bool(np.any(np.asarray(bw[i][1]) != 0))
        means[i] = A @ means[i + 1] + b
        covs[i] = A @ covs[i + 1] @ A.T + Q
    joint = {}
    for j in range(N):
        Mx = covs[j]
        joint[(j, j)] = Nmp.to_float(Mx)
        for i in range(j - 1, -1, -1):
            Mx = A_list[i] @ Mx
            joint[(i, j)] = Nmp.to_float(Mx)
    return np.asarray([Nmp.to_float(m) for m in means]), joint, offset_nonzero


def _posterior_sequence(res, case):
    """Run the smoother eagerly enough to get the posterior object; joint law from its own factors."""
    import jax
    import jax.numpy as jnp

    from probdiffeq import ivpsolve

    cfg = case["cfg"]
    fact, n, d = cfg["fact"], cfg["n"], cfg["d"]
    field, C, tc, grid, base_vec = ssmcase.case_arrays(case)
    if case["mode"] == "fixed_grid":
        times = grid
    else:
        t0, T = float(grid[0]), float(grid[-1])
        times = np.asarray([t0] + [t0 + f * (T - t0) for f in case["fracs"]] + [T])
    base_arg = None
    if case.get("base") is not None:
        base_arg = jnp.asarray(base_vec[0] if fact == "isotropic" else base_vec)
    init_std = sk.init_std_vector(cfg)
    key = (sk.structure_key(cfg), case["mode"], cfg.get("num_ckpt"), base_arg is None)
    if key not in _CACHE:

        def run(C, tc, times, damp, base, init_std, atol, rtol, dt0):
            ssm = lib.ssm(fact)
            vf = sk.make_ode(field, C)
            prior = sk.make_prior(ssm, cfg, [tc[i] for i in range(n)], base, init_std)
            constraint = sk.make_constraint(ssm, cfg, vf)
            solver = sk.make_solver(ssm, cfg, constraint, None)
            if case["mode"] == "fixed_grid":
                sol = ivpsolve.solve_fixed_grid(solver=solver)(prior, grid=times, damp=damp)
            else:
                error = sk.make_error(ssm, cfg, vf)
                sol = ivpsolve.solve_adaptive_save_at(solver=solver, error=error, warn=False)(prior, save_at=times, atol=atol, rtol=rtol, dt0=dt0, damp=damp)
            return sol.solution_full.posterior, sk._solution_outputs(cfg, sol)

        _CACHE[key] = jax.jit(run)
    with common.lib_call("solve"):
        posterior, out = _CACHE[key](jnp.asarray(C), jnp.asarray(tc), jnp.asarray(times), float(case["damp"]), base_arg, jnp.asarray(init_std),
                                     float(case.get("atol", 1e-3)), float(case.get("rtol", 1e-3)), float(case.get("dt0", 0.1)))
        out = jax.tree.map(np.asarray, out)
    if not np.all(np.isfinite(out["mean"])):
        raise common.Inconclusive("solve not finite (method limit at this tolerance)")
    N = len(times)
    bw = ssmcase.backward_dense(out, cfg)
    mT, PT = np.asarray(out["post_marg_mean"], float), np.asarray(out["post_marg_cov"], float)
    means, joint, offset_nonzero = _joint_from_factors(bw, mT, PT, N, 0.0)
    _LAST_FACTORS[0] = (bw, PT)
    res.nontrivial = N >= 3 and offset_nonzero
    means_f = means
    # the returned smoothing means must be what the factorisation implies (also checked in C03)
    sabs = [None] * N
    sabs[-1] = np.abs(mT)
    for i in range(N - 2, -1, -1):
        sabs[i] = np.abs(bw[i][0]) @ sabs[i + 1] + np.abs(bw[i][1])
    return posterior, means_f, joint, N, np.asarray(sabs)
