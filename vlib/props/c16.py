"""C16 - automatic derivatives equal the true derivatives of the computed outputs."""

import numpy as np
from hypothesis import strategies as st

from vlib import common, gen, lib, ssmcase
from vlib import solverkit as sk

ID = "C16"
BUDGET = {"quick": 192, "thorough": 5000}
LEVEL = "exploration"
TECHNIQUE = "property-based testing (Hypothesis): forward-mode vs reverse-mode vs Richardson-controlled central differences; differential attribution of failures by shimming one backend routine"
LEVEL_TEXT = (
    "Generated smooth parametrised problems on fixed grids: the parameter enters the vector field, the initial value, the prior base scale "
    "or the observation-noise level; the differentiated quantity is a random linear functional of means / standard deviations, the "
    "calibrated output scale, or one of the two marginal-likelihood losses; 3 factorisations x calibration modes x strategies x TS0/TS1, "
    "exact and inexact initial states, equal and unequal noise levels. Checked: derivatives finite; jacfwd = grad; AD = 4th-order central "
    "difference (accepted only when two step sizes agree to 1e-6). A failing case is re-run with backend.linalg.qr_r replaced harness-side "
    "by plain jnp.linalg.qr (exact JVP) / with an explicit triangular solve in the loss: if the failure disappears it is attributed to the "
    "recorded finding, otherwise it is a new violation."
    ' A deterministic corner sweep runs on every execution: std / terminal-loss objectives x {theta, u0, scale} x {mle, none} x filter/smoother x 3 factorisations with exact (zero-covariance) initial states.'
)
LEVEL_NOTE = "Trusted: finite differences with Richardson agreement as ground truth (noise <= 1e-9 observed, genuine errors >= 1e-3); stop-gradient paths (dt, default dynamic calibration) are excluded as the property states."
RULE = (
    "case = (structure from a seeded pool, what is differentiated, which parameter, values); non-trivial = derivative magnitude > 1e-6 and the "
    "parameter changes the observation matrix or the covariances (TS1, scale or noise parameters); distinct by JSON hash"
)
ASSUMPTIONS = ["jacobian_materialize(); IWP priors; x64; fixed grids"]
REQUIRED_LABELS = ["param:theta", "param:u0", "param:scale", "param:noise", "obj:means", "obj:stds", "obj:lml_timeseries", "obj:lml_terminal", "lin:ts1"]
MAX_INCONCLUSIVE = 0.5


def strategy(ctx):
    rng = ctx.rng("c16-pool")
    size = 3 if ctx.tier == "quick" else 6
    pool = []
    for _ in range(size):
        cfg = ssmcase.draw_structure(rng, strategies=("filter", "fixedinterval"), nmax=4, dmax=2, steps=(2, 5), inits=("exact", "inexact", "inexact"),
                                     calibs=("none", "mle", "dynamic"))
        cfg["cinit"] = False
        obj = str(rng.choice(["means", "stds", "scale", "lml_timeseries", "lml_terminal"]))
        if obj == "scale" and cfg["calib"] == "none":
            obj = "means"
        if obj == "lml_timeseries":
            cfg["strategy"] = "fixedinterval"
        cfg["obj"] = obj
        params = ["theta", "u0", "scale"] + (["noise"] if obj.startswith("lml") else [])
        cfg["param"] = str(rng.choice(params))
        cfg["equal_noise"] = bool(rng.integers(0, 2))
        pool.append(cfg)

    @st.composite
    def one(draw):
        cfg = draw(st.sampled_from(pool))
        case = draw(ssmcase.values(cfg, hmin=3e-2, hmax=0.5))
        case["damp"] = draw(st.sampled_from([0.0, 1e-2, 1e-1]))
        n, d, N = cfg["n"], cfg["d"], cfg["num_steps"] + 1
        case["w"] = draw(gen.vec(N * n * d, gen.quarter(-4, 4)))
        case["dirC"] = draw(gen.mat(d, sk.make_field(cfg).M, gen.quarter(-4, 4)))
        case["dirU"] = draw(gen.vec(d, gen.nonzero_quarter(-4, 4)))
        case["log_noise"] = draw(gen.vec(N * d, gen.exponent(-2.0, 0.5)))
        case["z"] = draw(gen.vec(N * d, gen.quarter(-8, 8)))
        case["base"] = [1.0] * (1 if cfg["fact"] == "isotropic" else d)
        return case

    return one()


_CACHE = {}


def _objective(cfg, shim):
    """f(theta, C, dirC, tc, dirU, grid, damp, w, noise, z) -> scalar, built for this structure."""
    import jax
    import jax.numpy as jnp

    from probdiffeq import ivpsolve
    from probdiffeq import probdiffeq as pd
    from probdiffeq.backend import linalg as pl

    field = sk.make_field(cfg)
    fact, n, d = cfg["fact"], cfg["n"], cfg["d"]
    obj, param = cfg["obj"], cfg["param"]

    def f(theta, C, dirC, tc, dirU, grid, damp, w, noise, z):
        Cp = C + theta * dirC if param == "theta" else C
        ssm = lib.ssm(fact)
        vf = sk.make_ode(field, Cp)
        if param == "u0":
            # consistent Taylor coefficients of the perturbed initial value (the library's own routine)
            tcoeffs, _ = pd.jetexpand_ode_padded_scan(num=n - field.order)(vf, tuple(tc[i] + theta * dirU for i in range(field.order)), t=grid[0])
        else:
            tcoeffs = [tc[i] for i in range(n)]
        s = jnp.exp(theta) if param == "scale" else 1.0
        scale = s * jnp.ones(()) if fact == "isotropic" else s * jnp.ones((d,))
        if cfg["init"] == "inexact":
            prior = ssm.prior_wiener_integrated(tcoeffs, is_exact=False, inexact_eps=1e-2, output_scale=scale)
        else:
            prior = ssm.prior_wiener_integrated(tcoeffs, output_scale=scale)
        constraint = sk.make_constraint(ssm, cfg, vf)
        strategy = sk.make_strategy(cfg["strategy"])
        if cfg["calib"] == "none":
            solver = pd.solver(strategy=strategy, constraint=constraint)
        elif cfg["calib"] == "mle":
            solver = pd.solver_mle(strategy=strategy, constraint=constraint)
        else:
            solver = pd.solver_dynamic(strategy=strategy, constraint=constraint, stop_gradient_through_calibration=False)
        sol = ivpsolve.solve_fixed_grid(solver=solver)(prior, grid=grid, damp=damp)
        N = grid.shape[0]
        if obj == "predict_data":
            return sol.u.mean[0]
        if obj == "probe_scale":
            return jnp.min(sol.output_scale)
        if obj == "means":
            m, _ = sol.u.to_multivariate_normal()
            return jnp.sum(m * w.reshape(N, n * d))
        if obj == "stds":
            leaves = jax.tree.leaves(sol.u.std)
            return sum(jnp.sum(x) for x in leaves)
        if obj == "scale":
            return jnp.sum(sol.output_scale[-1])
        nz = noise * (jnp.exp(theta) if param == "noise" else 1.0)
        std = nz.reshape(N, d)[:, 0] if fact == "isotropic" else nz.reshape(N, d)
        # z carries the *data* (fixed numbers, computed once at theta = 0 by the caller)
        data = z.reshape(N, d)
        if obj == "lml_timeseries":
            # attribution shim for F6: a pseudo-inverse based solve (same primal, well-defined derivative)
            kw = {"solve_triu": (lambda M, rhs: jnp.linalg.pinv(M) @ rhs)} if shim in ("pinv", "pinv+qr") else {}
            loss = pd.loss_lml_timeseries(**kw)
            return loss(data, posterior=sol.solution_full.posterior, std=std)
        loss = pd.loss_lml_terminal_values()
        last = jax.tree.map(lambda x: x[-1], sol.u)
        return loss(data[-1], marginals=last, std=std[-1])

    return f


class QrShim:
    """Replace backend.linalg.qr_r by jnp.linalg.qr(mode='r') (exact JVP) while active."""

    def __enter__(self):
        import jax.numpy as jnp
        from probdiffeq.backend import linalg as pl

        self.pl, self.orig = pl, pl.qr_r
        pl.qr_r = lambda arr: jnp.linalg.qr(arr, mode="r")
        return self

    def __exit__(self, *a):
        self.pl.qr_r = self.orig
        return False


def _derivatives(cfg, args, shim=None):
    import jax

    key = (sk.structure_key(cfg), cfg["obj"], cfg["param"], shim, args[5].shape)
    if key not in _CACHE:
        f = _objective(cfg, shim)

        def build():
            return jax.jit(f), jax.jit(jax.jacfwd(f)), jax.jit(jax.grad(f))

        if shim in ("qr", "pinv+qr"):
            with QrShim():
                fns = build()
                # trace now, while the shim is active
                for fn in fns:
                    fn(*args)
        else:
            fns = build()
        _CACHE[key] = fns
    f0, jf, jr = _CACHE[key]
    val = float(f0(*args))
    gf = float(jf(*args))
    gr = float(jr(*args))
    return f0, val, gf, gr


def _fd(f0, args):
    th = float(args[0])

    def g(h):
        a = lambda x: float(f0(x, *args[1:]))  # noqa: E731
        return (-a(th + 2 * h) + 8 * a(th + h) - 8 * a(th - h) + a(th - 2 * h)) / (12 * h)

    g1, g2 = g(1e-3), g(3e-4)
    return g1, g2


def check_case(case):
    import jax.numpy as jnp

    res = common.Result()
    cfg = case["cfg"]
    obj, param = cfg["obj"], cfg["param"]
    res.label(f"param:{param}", f"obj:{obj}", f"lin:{cfg['lin']}", f"fact:{cfg['fact']}", f"calib:{cfg['calib']}", f"init:{cfg['init']}")
    field, C, tc, grid, base_vec = ssmcase.case_arrays(case)
    n, d, N = cfg["n"], cfg["d"], len(grid)
    noise = 10.0 ** np.asarray(case["log_noise"], float)
    if cfg["equal_noise"]:
        noise = np.ones_like(noise) * noise[0]
        res.label("equal_noise")
    args = (jnp.asarray(0.0), jnp.asarray(C), jnp.asarray(np.asarray(case["dirC"], float) * 0.25), jnp.asarray(tc), jnp.asarray(np.asarray(case["dirU"], float)),
            jnp.asarray(grid), float(case["damp"]), jnp.asarray(np.asarray(case["w"], float)), jnp.asarray(noise), jnp.asarray(np.asarray(case["z"], float)))
    if cfg["calib"] != "none":
        # an exactly vanishing residual makes the calibrated scale |r|-like: not differentiable, excluded
        kp = (sk.structure_key(cfg), "probe_scale", cfg["param"], args[5].shape)
        if kp not in _CACHE:
            import jax

            _CACHE[kp] = jax.jit(_objective({**cfg, "obj": "probe_scale"}, None))
        with common.lib_call("solve(probe)"):
            smin = float(_CACHE[kp](*args))
        if not smin > 1e-10:
            raise common.Inconclusive("calibrated output scale is (numerically) zero: the estimator is not differentiable there")
    if obj.startswith("lml"):
        # data = solution at theta = 0 plus a fixed perturbation; it must not depend on theta
        kd = (sk.structure_key(cfg), "predict_data", cfg["param"], args[5].shape)
        if kd not in _CACHE:
            import jax

            _CACHE[kd] = jax.jit(_objective({**cfg, "obj": "predict_data"}, None))
        with common.lib_call("solve(data)"):
            mu0 = np.asarray(_CACHE[kd](*args))
        data = mu0 + np.asarray(case["z"], float).reshape(N, d) * 0.1
        args = args[:-1] + (jnp.asarray(data.reshape(-1)),)
    with common.lib_call("value+jacfwd+grad"):
        f0, val, gf, gr = _derivatives(cfg, args)
    if not np.isfinite(val):
        raise common.Inconclusive("primal value not finite")
    g1, g2 = _fd(f0, args)
    scale = max(abs(g1), 1e-8 * max(abs(val), 1.0))
    if not (np.isfinite(g1) and np.isfinite(g2)) or abs(g1 - g2) > 1e-6 * scale + 1e-10:
        raise common.Inconclusive("finite differences at two step sizes disagree (non-smooth point or ill-conditioned objective)")
    res.nontrivial = abs(g1) > 1e-4 * max(abs(val), 1.0) and (cfg["lin"] == "ts1" or param in ("scale", "noise"))

    problems = []
    if not (np.isfinite(gf) and np.isfinite(gr)):
        problems.append(("not_finite", f"derivative not finite (jacfwd={gf!r}, grad={gr!r}) while the value {val!r} and its finite difference {g1!r} are"))
    else:
        if abs(gf - gr) > 1e-8 * max(abs(gf), abs(gr)) + 1e-12:
            problems.append(("fwd_vs_rev", f"jacfwd={gf!r} vs grad={gr!r}"))
        # finite differences resolve the derivative to ~1e-6 of the objective's own magnitude
        e = abs(gf - g1) / (abs(g1) + 1e-2 * max(abs(val), 1.0))
        e = max(e, abs(gf - g1) / abs(g1) if abs(g1) > 1e-4 * max(abs(val), 1.0) else 0.0)
        res.metric("ad_vs_fd/tol", e / 1e-4)
        if e > 1e-4:
            problems.append(("ad_vs_fd" + (":gross" if e > 1e-1 else ""), f"automatic derivative {gf!r} vs finite difference {g1!r} (rel {e:.3e})"))
    if not problems:
        return res

    # ---- differential attribution ------------------------------------------------------------
    known = None
    detail = ""
    try:
        with common.lib_call("shimmed"):
            _, val_s, gf_s, gr_s = _derivatives(cfg, args, shim="qr")
        # the exact QR derivative is itself noisy near rank deficiency (triangular solves with R): the
        # failure counts as "gone" if the better of the two shimmed modes is within 1e-4, or at least
        # three times closer to the finite difference than the unshimmed derivative (and below 3e-3)
        den = abs(g1) + 1e-2 * max(abs(val), 1.0)
        e_plain = abs(gf - g1) / den if np.isfinite(gf) else np.inf
        e_shim = min(abs(gf_s - g1), abs(gr_s - g1)) / den if (np.isfinite(gf_s) and np.isfinite(gr_s)) else np.inf
        ok_s = e_shim <= 1e-4 or (e_shim <= 3e-3 and e_shim <= 0.34 * e_plain)
        if ok_s:
            known, detail = "F5", " [disappears with an exact-JVP QR]"
        elif not (np.isfinite(gf_s) and np.isfinite(gr_s)):
            detail = " [exact-JVP QR shim inconclusive: rank-deficient factor]"
    except common.LibraryError:
        pass
    if known is None and obj == "lml_timeseries" and any(p_[0] == "not_finite" for p_ in problems):
        # F6: NaN from differentiating the SVD-based least-squares solve at repeated singular values.
        # Attributed if a pseudo-inverse based solve (same primal) gives a finite derivative that is
        # right - on its own, or once the qr_r rule (F5) is exact as well, or where that second shim
        # cannot decide (rank-deficient factors).
        try:
            with common.lib_call("shimmed"):
                fp, val_t, gf_t, gr_t = _derivatives(cfg, args, shim="pinv")
            if np.isfinite(gf_t) and np.isfinite(gr_t) and np.isfinite(val_t) and abs(val_t - val) <= 1e-9 * max(abs(val), 1.0):
                close = lambda g: abs(g - g1) <= 1e-4 * (abs(g1) + 1e-2 * max(abs(val), 1.0))  # noqa: E731
                if close(gf_t):
                    known, detail = "F6", " [disappears with a pseudo-inverse based solve in the loss]"
                else:
                    with common.lib_call("shimmed"):
                        _, _, gf_b, gr_b = _derivatives(cfg, args, shim="pinv+qr")
                    if not np.isfinite(gf_b) or close(gf_b):
                        known, detail = "F6", " [finite with a pseudo-inverse based solve in the loss; remaining mismatch is the qr_r rule (F5)]"
        except common.LibraryError:
            pass
    if known is None and "inconclusive" in detail and all(p[0].startswith("ad_vs_fd") for p in problems):
        # exact initial states make the exact-JVP shim NaN; only finiteness and fwd = rev are asserted there
        res.label("attribution_inconclusive")
        if cfg["init"] == "exact" or float(case["damp"]) == 0.0:
            raise common.Inconclusive("derivative mismatch in a rank-deficient configuration where the attribution shim cannot decide (F5 class)")
    for bucket, msg in problems:
        res.violate(f"{bucket}" + (f":{known}" if known else ""), msg + detail + f" ({obj} w.r.t. {param}; {cfg['fact']}, {cfg['lin']}, {cfg['calib']}, {cfg['strategy']}, init={cfg['init']})", known=known)
    return res


def pinned_cases(ctx):
    import json
    import os

    if ctx.shard != 0:
        return []
    out = []
    kdir = os.path.join(common.VERIF, "replays", "known")
    for name in sorted(os.listdir(kdir)) if os.path.isdir(kdir) else []:
        if name.startswith("C16_"):
            with open(os.path.join(kdir, name)) as f:
                out.append((name, json.load(f)["case"]))
    return out


def _corner_cases(ctx):
    """Deterministic corner sweep on every run: derivatives of the standard deviations / the terminal loss for *exact* (zero-covariance)
    initial states - where a square root or a norm sits at zero - in every factorisation, for parameters that move the covariances
    (finding F13 lived here; the random structure pool of one run reaches this corner only now and then)."""
    import itertools

    rng = np.random.default_rng(common.derive_seed(ctx.seed, "c16-corners"))
    out = []
    combos = list(itertools.product(gen.FACTS, ["stds", "lml_terminal"], ["theta", "scale", "u0"], ["mle", "none"], ["filter", "fixedinterval"]))
    for i, (fact, obj, param, calib, strat) in enumerate(combos):
        if i % ctx.nshards != ctx.shard:
            continue
        if calib == "none" and param != "scale":
            continue  # uncalibrated covariances do not depend on the vector field or the initial value with TS0; keep the sweep small
        n, d, steps = 3, 2, 3
        lin = "ts0" if (i // 2) % 2 == 0 else "ts1"
        cfg = dict(fact=fact, calib=calib, strategy=strat, lin=lin, n=n, d=d, order=1, degree=2, num_steps=steps, init="exact", jac="materialize",
                   cinit=False, obj=obj, param=param, equal_noise=False)
        M = sk.make_field(cfg).M
        q = lambda *shape: (np.round(rng.uniform(-2, 2, size=shape) * 4) / 4).tolist()  # noqa: E731
        N = steps + 1
        case = dict(cfg=cfg, C=q(d, M), tc=q(n, d), tc_mode="consistent", incs=[0.125, 0.25, 0.125], t0=0.25, damp=0.0, base=[1.0] * (1 if fact == "isotropic" else d),
                    w=q(N * n * d), dirC=q(d, M), dirU=[1.0, -0.5], log_noise=[-1.0] * (N * d), z=q(N * d))
        out.append(("corner", case))
    return out


_pinned_known = pinned_cases


def pinned_cases(ctx):  # noqa: F811
    return _pinned_known(ctx) + _corner_cases(ctx)
