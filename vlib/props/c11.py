"""C11 - jet-lifting and constraint constructors differentiate constraints exactly."""

from fractions import Fraction

import numpy as np
from hypothesis import strategies as st

from vlib import common, gen, lib
from vlib.polyfield import PolyField
from vlib.ref import series

ID = "C11"
BUDGET = {"quick": 640, "thorough": 16000}
LEVEL = "exploration"
TECHNIQUE = "property-based testing (Hypothesis) against exact total derivatives from rational power-series arithmetic; exact polynomial Jacobians for the linearisation part"
LEVEL_TEXT = (
    "Generated polynomial ODE right-hand sides and residuals of differential order 0..2 in (u, u', u'', t) with rational coefficients, "
    "lift orders 0..5, arbitrary rational Taylor coefficients (not solutions of the ODE), admissible and inadmissible lift_by. Lifted "
    "functions must return exactly the 0th..m-th total time derivatives along the curve with the supplied coefficients (oracle: exact "
    "Fraction series), with the documented index bookkeeping; inadmissible lifts must raise. residual_from_ode must equal u^(k) - f, "
    "stacked residuals must evaluate each part on its own coefficients, the TS1-of-ODE constraint must be identical to the residual "
    "constraint, and every linearised constraint (3 factorisations) must reproduce value and (full / per-dimension / trace-averaged) "
    "Jacobian at its linearisation point."
    " An ODE lifted further than the state's coefficients support must be rejected by linearize() in every factorisation."
)
LEVEL_NOTE = "Trusted: exact Fraction arithmetic; closed-form polynomial Jacobians; tolerance 256 eps x sum of absolute terms (lifting), 1e-10 (linearisation)."
RULE = (
    "case = (mode lift_ode|lift_residual|bad_lift|from_ode|stack|linearize, d, differential order, degree, sparse rational coefficients, "
    "rational jet, t0, lift order, factorisation); non-trivial = explicit t-dependence and lift >= 2, or a stack with parts of different order"
)
ASSUMPTIONS = ["x64"]
REQUIRED_LABELS = ["overlift_rejected", "mode:lift_ode", "mode:lift_residual", "mode:bad_lift", "mode:from_ode", "mode:stack", "mode:linearize", "time_dependent",
                   "lin:dense", "lin:isotropic", "lin:blockdiag"]
MODES = ["lift_ode", "lift_residual", "bad_lift", "from_ode", "stack", "linearize", "linearize"]


def _sparse_C(draw, field, rows, nnz_max=6):
    C = [[0.0] * field.M for _ in range(rows)]
    for _ in range(draw(st.integers(1, nnz_max))):
        C[draw(st.integers(0, rows - 1))][draw(st.integers(0, field.M - 1))] = draw(gen.nonzero_quarter(-8, 8))
    return C


@st.composite
def _case(draw):
    mode = draw(st.sampled_from(MODES))
    d = draw(st.integers(1, 3))
    nargs = draw(st.integers(1, 3))  # number of jet arguments of the function (differential order + 1)
    degree = draw(st.integers(1, 3))
    field = PolyField(d, nargs, degree, with_time=True)
    lift = draw(st.integers(0, 5))
    case = dict(mode=mode, d=d, nargs=nargs, degree=degree, C=_sparse_C(draw, field, d), lift=lift,
                jet=draw(gen.mat(nargs + 8, d, gen.quarter(-6, 6))), t0=draw(gen.quarter(-8, 8)),
                bad=draw(st.sampled_from(["negative", "too_large", "non_int", "too_large_by_one"])),
                extra=draw(st.integers(0, 2)), fact=draw(st.sampled_from(gen.FACTS)), lin=draw(st.sampled_from(["ts0", "ts1", "residual", "ts0_lifted", "ts0_overlifted"])),
                damp=draw(st.sampled_from([0.0, 0.25])), n_extra=draw(st.integers(0, 2)),
                chol=draw(gen.vec(8, gen.quarter(1, 8))))
    if mode == "stack":
        nargs2 = draw(st.integers(1, 3))
        f2 = PolyField(d, nargs2, degree, with_time=True)
        case["nargs2"] = nargs2
        case["C2"] = _sparse_C(draw, f2, d)
    return case


def strategy(ctx):
    return _case()


def _frac(v):
    return Fraction(int(round(float(v) * 4)), 4)


def _exact_total(field, C, jet_rows, t0, m):
    Cf = field.frac_coeffs(np.asarray(C, float)).tolist()
    jetf = [[_frac(v) for v in row] for row in jet_rows]
    ex = series.total_derivatives_along_jet(field, Cf, jetf, _frac(t0), m)
    Cabs = [[abs(x) for x in row] for row in Cf]
    jabs = [[abs(x) for x in row] for row in jetf]
    bd = series.total_derivatives_along_jet(field, Cabs, jabs, abs(_frac(t0)), m)
    return np.asarray([[float(x) for x in r] for r in ex]), np.asarray([[float(x) for x in r] for r in bd])


def _cmp(res, tag, got, exact, bound, rel=256 * np.finfo(float).eps):
    got = np.asarray(got, float)
    if got.shape != exact.shape:
        res.violate(f"{tag}:shape", f"{tag}: shape {got.shape}, expected {exact.shape}")
        return
    tol = rel * np.maximum(bound, 1e-300)
    ratio = float(np.max(np.abs(got - exact) / tol)) if np.all(np.isfinite(got)) else np.inf
    res.metric(f"{tag}/tol", ratio)
    if not ratio <= 1.0:
        j = np.unravel_index(int(np.argmax(np.abs(got - exact) / tol)), got.shape)
        res.violate(tag + (":gross" if ratio > 1e6 else ""), f"{tag}: entry {j} = {got[j]!r}, exact {exact[j]!r}")


def check_case(case):
    import jax.numpy as jnp

    from probdiffeq import probdiffeq as pd

    res = common.Result()
    mode, d, nargs, lift = case["mode"], case["d"], case["nargs"], case["lift"]
    field = PolyField(d, nargs, case["degree"], with_time=True)
    C = np.asarray(case["C"], float)
    t0 = float(case["t0"])
    tdep = field.depends_on_time(C)
    res.label(f"mode:{mode}")
    if tdep:
        res.label("time_dependent")
    jet_np = np.asarray(case["jet"], float)

    def f(*args, t):
        return field.jax_eval_static(C, list(args), t)

    def make_ode():
        # ODE u^(nargs) = f(u, ..., u^(nargs-1), t)
        if nargs == 1:
            return pd.ode(lambda y, /, *, t: f(y, t=t), jacobian=pd.jacobian_materialize())
        if nargs == 2:
            return pd.ode_order_two(lambda y, dy, /, *, t: f(y, dy, t=t), jacobian=pd.jacobian_materialize())
        return pd.ode_order_arbitrary(lambda *a, t: f(*a, t=t), num_tcoeffs_in_args=nargs, jacobian=pd.jacobian_materialize())

    def make_residual(fld=field, Cm=C, k=nargs):
        g = lambda *a, t: fld.jax_eval_static(Cm, list(a), t)  # noqa: E731
        if k == 1:
            return pd.residual_position(lambda y, /, *, t: g(y, t=t), jacobian=pd.jacobian_materialize())
        if k == 2:
            return pd.residual_velocity(lambda y, dy, /, *, t: g(y, dy, t=t), jacobian=pd.jacobian_materialize())
        return pd.residual_acceleration(lambda y, dy, ddy, /, *, t: g(y, dy, ddy, t=t), jacobian=pd.jacobian_materialize())

    if mode in ("lift_ode", "lift_residual"):
        res.nontrivial = tdep and lift >= 2
        navail = nargs + lift + case["extra"]  # supply more coefficients than needed: extra ones must be ignored
        jet = [jnp.asarray(jet_np[i]) for i in range(navail)]
        exact, bound = _exact_total(field, C, jet_np[:navail], t0, lift)
        with common.lib_call(mode):
            if mode == "lift_ode":
                lifted = make_ode().jet_lift(lift_by=lift)
                out = lifted.vector_field(jet_coords=jet, t=t0)
                idx_out, nin = lifted.tcoeff_indices_output, lifted.num_tcoeffs_in_args
            else:
                lifted = make_residual().jet_lift(lift_by=lift)
                out = lifted.residual_function(jet_coords=jet, t=t0)
                idx_out, nin = None, lifted.num_tcoeffs_in_args
            got = np.asarray([np.asarray(o, float).reshape(-1) for o in out])
        _cmp(res, mode, got, exact, bound)
        if nin != nargs + lift:
            res.violate("bookkeeping:num_args", f"lifted function declares {nin} arguments, expected {nargs + lift}")
        if idx_out is not None and list(idx_out) != list(range(nargs, nargs + lift + 1)):
            res.violate("bookkeeping:output_indices", f"lifted ODE declares outputs {idx_out}, expected {list(range(nargs, nargs + lift + 1))}")
        # jet_lift_max must pick the largest admissible lift
        with common.lib_call("jet_lift_max"):
            ntot = nargs + lift + 1 if mode == "lift_ode" else nargs + lift
            mx = (make_ode() if mode == "lift_ode" else make_residual()).jet_lift_max(num_tcoeffs=ntot)
        if mx.num_tcoeffs_in_args != nargs + lift:
            res.violate("bookkeeping:lift_max", f"jet_lift_max(num_tcoeffs={ntot}) gives {mx.num_tcoeffs_in_args} arguments, expected {nargs + lift}")
        return res

    if mode == "bad_lift":
        res.nontrivial = True
        navail = nargs + lift
        jet = [jnp.asarray(jet_np[i]) for i in range(navail)]
        bad = {"negative": -1 - case["extra"], "too_large": lift + 2 + case["extra"], "too_large_by_one": lift + 1, "non_int": float(lift)}[case["bad"]]
        for kind in ("ode", "residual"):
            obj = make_ode() if kind == "ode" else make_residual()
            try:
                lifted = obj.jet_lift(lift_by=bad)
                fn = lifted.vector_field if kind == "ode" else lifted.residual_function
                out = fn(jet_coords=jet, t=t0)
            except (ValueError, TypeError):
                continue
            except Exception as e:  # noqa: BLE001
                res.violate("bad_lift:wrong_exception", f"{kind}: lift_by={bad!r} with {navail} coefficients raised {type(e).__name__}: {str(e)[:120]}")
                continue
            res.violate("bad_lift:accepted", f"{kind}: lift_by={bad!r} with {navail} coefficients for a {nargs}-argument function returned {len(out)} outputs")
        return res

    if mode == "from_ode":
        res.nontrivial = tdep
        jet = [jnp.asarray(jet_np[i]) for i in range(nargs + 1)]
        exact0, bound0 = _exact_total(field, C, jet_np[: nargs + 1], t0, 0)
        with common.lib_call("residual_from_ode"):
            r = pd.residual_from_ode(make_ode())
            out = r.residual_function(jet_coords=jet, t=t0)
            got = np.asarray([np.asarray(o, float).reshape(-1) for o in out])
        _cmp(res, "from_ode", got, jet_np[nargs][None] - exact0, bound0 + np.abs(jet_np[nargs][None]))
        if r.num_tcoeffs_in_args != nargs + 1:
            res.violate("bookkeeping:from_ode", f"residual_from_ode declares {r.num_tcoeffs_in_args} arguments, expected {nargs + 1}")
        return res

    if mode == "stack":
        n2 = case["nargs2"]
        res.nontrivial = n2 != nargs
        f2 = PolyField(d, n2, case["degree"], with_time=True)
        C2 = np.asarray(case["C2"], float)
        ntot = max(nargs, n2)
        jet = [jnp.asarray(jet_np[i]) for i in range(ntot)]
        e1, b1 = _exact_total(field, C, jet_np[:nargs], t0, 0)
        e2, b2 = _exact_total(f2, C2, jet_np[:n2], t0, 0)
        with common.lib_call("residual_from_stack"):
            st_ = pd.residual_from_stack(make_residual(), make_residual(f2, C2, n2))
            out = st_.residual_function(jet_coords=jet, t=t0)
            parts = [np.asarray(o[0] if isinstance(o, (list, tuple)) else o, float).reshape(-1) for o in out]
        if len(parts) != 2:
            res.violate("stack:count", f"stack of two residuals returned {len(parts)} parts")
            return res
        _cmp(res, "stack", np.asarray(parts), np.concatenate([e1, e2]), np.concatenate([b1, b2]))
        if st_.num_tcoeffs_in_args != ntot:
            res.violate("bookkeeping:stack", f"stack declares {st_.num_tcoeffs_in_args} arguments, expected {ntot}")
        return res

    # ---------------------------------------------------------------- linearisation part
    fact, lin = case["fact"], case["lin"]
    res.label(f"lin:{fact}", f"lintype:{lin}")
    n = nargs + 1 + case["n_extra"] + (lift if lin == "ts0_lifted" else 0)
    if n > jet_np.shape[0]:
        n = jet_np.shape[0]
    res.nontrivial = tdep or d >= 2
    ssm = lib.ssm(fact)
    mean = [jnp.asarray(jet_np[i]) for i in range(n)]
    chol_diag = np.asarray((case["chol"] * 4)[:n], float)
    if fact == "isotropic":
        std = [jnp.asarray(chol_diag[i]) for i in range(n)]
    else:
        std = [jnp.ones((d,)) * chol_diag[i] for i in range(n)]
    with common.lib_call("linearize"):
        prior = ssm.prior_wiener_integrated_diffuse(mean, std)
        rv = prior.init
        ode = make_ode()
        if lin == "ts0_overlifted":
            # the lift itself is admissible for *some* number of coefficients, but the state carries one coefficient too few:
            # "reject lift orders that the supplied coefficients cannot support" - here the supplied coefficients are the state's
            lb_bad = n - nargs + case["extra"] % 2
            try:
                cons = ssm.constraint_ode_ts0(ode.jet_lift(lift_by=lb_bad))
                cond, _ = cons.linearize(rv, cons.init_linearization(), damp=case["damp"], t=t0)
                F_, b_, _ = lib.cond_to_dense(fact, cond, d)
            except Exception:  # noqa: BLE001  (a loud rejection, whatever its type)
                res.label("overlift_rejected")
                return res
            res.violate("linearize:overlift_accepted", f"ts0/{fact}: an ODE lifted by {lb_bad} (outputs up to coefficient {nargs + lb_bad}) was linearised on a state with "
                        f"{n} coefficients; operator rows {np.shape(F_)}, last row {'all zero' if not np.any(np.asarray(F_)[-d:]) else 'non-zero'}")
            return res
        if lin == "ts0":
            cons = ssm.constraint_ode_ts0(ode)
        elif lin == "ts0_lifted":
            lb = min(lift, n - nargs - 1)
            cons = ssm.constraint_ode_ts0(ode.jet_lift(lift_by=lb))
        elif lin == "ts1":
            cons = ssm.constraint_ode_ts1(ode)
        else:
            cons = ssm.constraint_residual(pd.residual_from_ode(ode))
        cond, _ = cons.linearize(rv, cons.init_linearization(), damp=case["damp"], t=t0)
        F, b, Q = lib.cond_to_dense(fact, cond, d)
    perm = lib.perm_to_coeff_major(fact, n, d)
    xi = jet_np[:n].reshape(-1)  # coefficient-major mean
    # rows of F are in the harness embedding of the *output* (m outputs of dimension d)
    m_out = F.shape[0] // d
    perm_out = lib.perm_to_coeff_major(fact, m_out, d)
    Fc = F[np.ix_(perm_out, perm)]
    bc = b[perm_out]
    Qc = Q[np.ix_(perm_out, perm_out)]
    # constraint value at the linearisation point
    if lin == "ts0_lifted":
        lb = min(lift, n - nargs - 1)
        exact, bound = _exact_total(field, C, jet_np[: nargs + lb], t0, lb)
        value = np.concatenate([jet_np[nargs + r] - exact[r] for r in range(lb + 1)])
        vbound = np.concatenate([np.abs(jet_np[nargs + r]) + bound[r] for r in range(lb + 1)])
    else:
        exact, bound = _exact_total(field, C, jet_np[:nargs], t0, 0)
        value = jet_np[nargs] - exact[0]
        vbound = np.abs(jet_np[nargs]) + bound[0]
    got_value = Fc @ xi + bc
    tolv = 1e-10 * (vbound + np.abs(Fc) @ np.abs(xi) + 1e-300)
    if got_value.shape != value.shape:
        res.violate("linearize:shape", f"{lin}/{fact}: {got_value.shape[0]} constraint rows, expected {value.shape[0]}")
        return res
    ratio = float(np.max(np.abs(got_value - value) / tolv))
    res.metric("linearize:value/tol", ratio)
    if not ratio <= 1.0:
        res.violate("linearize:value", f"{lin}/{fact}: A xi + b = {got_value.tolist()} but the constraint at xi is {value.tolist()}")
    # Jacobian
    sel = np.zeros((d, n * d))
    for a in range(d):
        sel[a, nargs * d + a] = 1.0
    if lin in ("ts0",):
        Jref = sel
    elif lin == "ts0_lifted":
        lb = min(lift, n - nargs - 1)
        Jref = np.zeros(((lb + 1) * d, n * d))
        for r in range(lb + 1):
            for a in range(d):
                Jref[r * d + a, (nargs + r) * d + a] = 1.0
    else:
        J = field.np_jac(C, [jet_np[i] for i in range(nargs)], t0)  # (d, nargs, d)
        Jref = sel.copy()
        for i in range(nargs):
            if fact == "dense":
                Jref[:, i * d : (i + 1) * d] -= J[:, i, :]
            elif fact == "blockdiag":
                for a in range(d):
                    Jref[a, i * d + a] -= J[a, i, a]
            else:
                tr = sum(J[a, i, a] for a in range(d)) / d
                for a in range(d):
                    Jref[a, i * d + a] -= tr
    eJ = float(np.max(np.abs(Fc - Jref))) / max(1.0, float(np.max(np.abs(Jref))))
    res.metric("linearize:jacobian/tol", eJ / 1e-10)
    if not eJ <= 1e-10:
        res.violate("linearize:jacobian" + (":gross" if eJ > 1e-4 else ""), f"{lin}/{fact}: linear operator differs from the documented Jacobian reduction by {eJ:.3e}")
    # observation noise = damp^2 I
    if np.max(np.abs(Qc - case["damp"] ** 2 * np.eye(len(Qc)))) > 1e-14:
        res.violate("linearize:noise", f"{lin}/{fact}: observation noise is not damp^2 I")
    # TS1 of the ODE is identical to the residual constraint u^(k) - f
    if lin == "ts1":
        with common.lib_call("linearize(residual)"):
            cons2 = ssm.constraint_residual(pd.residual_from_ode(ode))
            cond2, _ = cons2.linearize(rv, cons2.init_linearization(), damp=case["damp"], t=t0)
            F2, b2, Q2 = lib.cond_to_dense(fact, cond2, d)
        if not (np.array_equal(F2, F) and np.array_equal(b2, b) and np.array_equal(Q2, Q)):
            res.violate("ts1_vs_residual", "constraint_ode_ts1(ode) and constraint_residual(residual_from_ode(ode)) linearise differently")
    return res
