"""C14 - state-space factorisations agree wherever theory says they must."""

import numpy as np
from hypothesis import strategies as st

from vlib import common, gen, ssmcase
from vlib import solverkit as sk

ID = "C14"
BUDGET = {"quick": 480, "thorough": 12000}
LEVEL = "exploration"
TECHNIQUE = "property-based differential testing (Hypothesis) between the three factorisations (plus independent scalar solves), tolerances from a perturbed mpmath reference"
LEVEL_TEXT = (
    "Generated problems in three classes: (a) arbitrary nonlinear polynomial fields with zeroth-order linearisation and default scales: "
    "dense, isotropic and block-diagonal must give identical means (uncalibrated, MLE) and covariances (uncalibrated), dense and isotropic "
    "must agree completely in every calibration mode including output scales and - in adaptive runs - the accepted step sequence, and the "
    "block-diagonal MLE scale^2 must average to the dense one; (b) componentwise-decoupled fields with first-order linearisation: the "
    "block-diagonal model must equal d independent scalar dense solves; (c) fields whose Jacobian is a multiple of the identity: isotropic "
    "TS1 must equal dense TS1. Orders 1..6, all fixed grids, three strategies, three calibration modes."
    ' A small-step / high-order class (n = 4..6, h in [1e-3, 1e-2]) is included, where absolute constants in one implementation show.'
)
LEVEL_NOTE = "Differential oracle (implementations against each other); comparison scales and attainable accuracy come from the mpmath reference filter/smoother of C02/C03."
RULE = (
    "case = (class a|b|c, structure from a seeded pool, problem values, grid or tolerances); non-trivial = d >= 2 with unequal component magnitudes "
    "and >= 3 steps; distinct by JSON hash"
)
ASSUMPTIONS = ["jacobian_materialize(); IWP priors; default base scales; x64"]
REQUIRED_LABELS = ["class:a", "class:b", "class:c", "adaptive", "calib:mle", "calib:dynamic", "strategy:fixedinterval", "norm:rms_then_scale", "norm:scale_then_rms"]
MAX_INCONCLUSIVE = 0.5


def strategy(ctx):
    rng = ctx.rng("c14-pool")
    size = 3 if ctx.tier == "quick" else 6
    pool = []
    for _ in range(size):
        cfg = ssmcase.draw_structure(rng, strategies=("filter", "fixedinterval"), nmax=7, dmax=3, steps=(2, 8), inits=("exact", "inexact"),
                                     calibs=("none", "mle", "dynamic"), lins=("ts0",), facts=("dense",))
        cfg["d"] = int(rng.integers(2, 4))
        cfg["cinit"] = False
        cfg["klass"] = str(rng.choice(["a", "a", "b", "c"]))
        if cfg["klass"] != "a":
            cfg["lin"] = "ts1"
        pool.append(cfg)
    # small steps at high orders (constraint standard deviations of 1e-11 and below in unit-scale coordinates): differential
    # dense/isotropic/block-diagonal comparison where absolute constants in one implementation show
    cfg = ssmcase.draw_structure(rng, strategies=("filter", "fixedinterval"), nmax=6, dmax=3, steps=(2, 5), inits=("exact",),
                                 calibs=("mle", "dynamic", "none"), lins=("ts0",), facts=("dense",), orders=(1,))
    cfg["n"] = int(rng.integers(4, 7))
    cfg["d"] = int(rng.integers(2, 4))
    cfg["cinit"] = False
    cfg["klass"] = "a"
    cfg["fine"] = True
    pool.append(cfg)
    pool_ad = []
    for _ in range(max(1, size // 3)):
        cfg = ssmcase.draw_structure(rng, strategies=("filter", "fixedpoint"), nmax=5, dmax=3, steps=(2, 2), inits=("exact",),
                                     calibs=("none", "mle", "dynamic"), lins=("ts0",), facts=("dense",))
        cfg["d"] = int(rng.integers(2, 4))
        cfg["cinit"] = False
        cfg["klass"] = "a"
        cfg["num_ckpt"] = 4
        # both error norms the library offers (the scalar isotropic error relies on broadcasting in them)
        cfg["error"] = dict(kind="residual", norm=str(rng.choice(["scale_then_rms", "rms_then_scale"])), lin=cfg["lin"])
        pool_ad.append(cfg)

    @st.composite
    def one(draw):
        if draw(st.integers(0, 4)) == 0:
            cfg = draw(st.sampled_from(pool_ad))
            case = draw(ssmcase.adaptive_values(cfg))
            case["fracs"] = sorted(draw(st.lists(st.floats(0.05, 0.95), min_size=2, max_size=2, unique=True)))
            case["adaptive"] = True
        else:
            cfg = draw(st.sampled_from(pool))
            case = draw(ssmcase.values(cfg, hmin=1e-3, hmax=1e-2, force_h=True) if cfg.get("fine") else ssmcase.values(cfg))
            case["adaptive"] = False
            if cfg.get("fine"):
                # O(1) residuals (Taylor coefficients that are not those of the solution): otherwise the residuals of such small
                # steps are rounding noise and so are the calibrated scales
                case["tc_mode"] = "arbitrary"
        case["base"] = None  # default scales
        case["mask_a"] = draw(gen.quarter(-4, 4))
        return case

    return one()


def _scale_tol(ref, pert):
    """Relative tolerance for comparing output scales: 100 x the attainable accuracy (perturbed reference), floor 1e-7."""
    if pert is None:
        return None
    sr, sp = np.asarray(ref["scale"], float), np.asarray(pert["scale"], float)
    att = float(np.max(np.abs(sp - sr) / np.maximum(np.abs(sr), 1e-300)))
    tol = max(1e-7, ssmcase.FACTOR * att)
    return tol if tol <= 1e-3 else None


def _restrict(case):
    """Impose the structure of class b (decoupled) / c (Jacobian = phi * I) on the coefficient matrix."""
    cfg = case["cfg"]
    field = sk.make_field(cfg)
    d, order = cfg["d"], cfg["order"]
    C = np.asarray(case["C"], float).copy()
    klass = cfg["klass"]
    tcol = field.nvars - 1
    if klass == "b":
        for m, a in enumerate(field.alpha):
            for i in range(d):
                # row i may only involve u_i, u'_i and t
                allowed = {k * d + i for k in range(order)} | {tcol}
                if any(e > 0 and j not in allowed for j, e in enumerate(a)):
                    C[i, m] = 0.0
    elif klass == "c":
        Cn = np.zeros_like(C)
        for m, a in enumerate(field.alpha):
            state_vars = [j for j, e in enumerate(a) if e > 0 and j != tcol]
            if not state_vars:
                Cn[:, m] = C[:, m]  # pure functions of t: arbitrary per row
            elif len(state_vars) == 1 and a[state_vars[0]] == 1:
                # linear in exactly one state variable (times a power of t): keep a common coefficient for u_i in row i
                k, i = divmod(state_vars[0], d)
                # coefficient taken from row 0 / variable (k,0) with the same power of t
                a0 = list(a)
                a0[state_vars[0]] = 0
                a0[k * d + 0] = 1
                m0 = field.alpha.index(tuple(a0))
                Cn[i, m] = C[0, m0]
        C = Cn
    return C


def _lib(case, fact, cfg_over=None, C=None):
    c2 = dict(case)
    c2["cfg"] = {**case["cfg"], "fact": fact, **(cfg_over or {})}
    if C is not None:
        c2["C"] = C.tolist()
        c2["_C_direct"] = True
    return c2


def check_case(case):
    res = common.Result()
    cfg = case["cfg"]
    klass, n, d = cfg["klass"], cfg["n"], cfg["d"]
    res.label(f"class:{klass}", f"calib:{cfg['calib']}", f"strategy:{cfg['strategy']}", f"lin:{cfg['lin']}")
    if cfg.get("fine"):
        res.label("fine_grid_high_order")
    # class b/c: rewrite the coefficient matrix (the harness scaling in case_arrays is applied afterwards, uniformly)
    if klass in ("b", "c"):
        case = dict(case)
        case["C"] = _restrict(case).tolist()
    if case.get("adaptive"):
        res.label("adaptive", "norm:" + cfg.get("error", {}).get("norm", "scale_then_rms"))
        return _adaptive(res, case)
    smooth = cfg["strategy"] != "filter"
    dense_case = _lib(case, "dense")
    ref = ssmcase.run_reference(dense_case, mp=True, smooth=smooth)
    try:
        pert = ssmcase.run_reference(dense_case, mp=True, smooth=smooth, perturb=ssmcase.PERTURB)
    except common.Inconclusive:
        pert = None
    tol0 = 1e-7 if smooth else None
    out_d = ssmcase.run_library(dense_case)
    field, C, tc, grid, base_vec = ssmcase.case_arrays(dense_case)
    u = np.abs(out_d["mean"][:, :d])
    res.nontrivial = cfg["num_steps"] >= 3 and d >= 2 and float(np.max(u.max(axis=0)) / max(np.min(u.max(axis=0)), 1e-300)) > 1.5

    def cmp(tag, out, means=True, covs=True, scales=False):
        lib_cov = out["cov"] if covs else out_d["cov"]
        lib_mean = out["mean"] if means else out_d["mean"]
        ssmcase.compare_marginals(res, tag, dense_case, lib_mean, lib_cov, ref, pert, expected=(out_d["mean"], out_d["cov"]),
                                  lib_idx=list(range(len(grid))), idx=list(range(len(grid))), tol0=tol0)
        if scales:
            a, b = np.asarray(out["scale"], float), np.asarray(out_d["scale"], float)
            rt = _scale_tol(ref, pert)
            if rt is None:
                res.label(f"{tag}:scale_illcond")
            elif a.shape != b.shape or not np.allclose(a, b, rtol=rt, atol=0):
                res.violate(f"{tag}:scale", f"{tag}: output scales differ beyond {rt:.1e} ({a.reshape(-1)[:3]} vs {b.reshape(-1)[:3]})")

    if klass == "a":
        out_i = ssmcase.run_library(_lib(case, "isotropic"))
        cmp("a:dense_vs_isotropic", out_i, scales=True)
        out_b = ssmcase.run_library(_lib(case, "blockdiag"))
        if cfg["calib"] == "none":
            cmp("a:dense_vs_blockdiag", out_b)
        elif cfg["calib"] in ("mle", "mle_nocorr"):
            cmp("a:dense_vs_blockdiag(means)", out_b, covs=False)
            # same residual energy: mean over dimensions of the per-dimension MLE scale^2 equals the dense scale^2
            sb = np.asarray(out_b["scale"], float)[-1]
            sd = float(np.asarray(out_d["scale"], float)[-1])
            e = abs(np.mean(sb**2) - sd**2) / sd**2 if sd > 0 else 0.0
            # condition-aware like every other scale comparison: 100 x the attainable accuracy of the scale (perturbed reference),
            # floor 1e-7; squares double the relative error. Small residuals (scales of 1e-4) are resolved to ~1e-4 only.
            rt = _scale_tol(ref, pert)
            if rt is None:
                res.label("a:mle_energy:scale_illcond")
                rt = np.inf
            res.metric("a:mle_energy/tol", e / (2 * rt))
            if not e <= 2 * rt:
                res.violate("a:mle_energy", f"block-diagonal MLE scales {sb} do not split the dense residual energy {sd**2!r}")
    elif klass == "b":
        # block-diagonal TS1 == d independent scalar dense solves
        out_b = ssmcase.run_library(_lib(case, "blockdiag"))
        if not np.all(np.isfinite(out_b["mean"])):
            raise common.Inconclusive("block-diagonal solve not finite (dynamic calibration with a vanishing block residual, F8 class)")
        for i in range(d):
            sub = _scalar_case(case, i)
            try:
                ref_i = ssmcase.run_reference(sub, mp=True, smooth=smooth)
                pert_i = ssmcase.run_reference(sub, mp=True, smooth=smooth, perturb=ssmcase.PERTURB)
            except common.Inconclusive:
                continue
            out_s = ssmcase.run_library(sub)
            rows = [k * d + i for k in range(n)]
            mean_b = out_b["mean"][:, rows]
            cov_b = out_b["cov"][:, rows][:, :, rows]
            ssmcase.compare_marginals(res, "b:blockdiag_vs_scalar", sub, mean_b, cov_b, ref_i, pert_i, expected=(out_s["mean"], out_s["cov"]),
                                      lib_idx=list(range(len(grid))), idx=list(range(len(grid))), tol0=tol0)
            if cfg["calib"] != "none":
                sb = np.asarray(out_b["scale"], float)[..., i].reshape(-1)
                ss = np.asarray(out_s["scale"], float).reshape(-1)
                rt = _scale_tol(ref_i, pert_i)
                if rt is not None and (sb.shape != ss.shape or not np.allclose(sb[-1], ss[-1], rtol=max(rt, 1e-6), atol=0)):
                    res.violate("b:scale", f"dimension {i}: block-diagonal scale {sb[-1]!r} vs scalar solve {ss[-1]!r}")
    else:
        out_i = ssmcase.run_library(_lib(case, "isotropic"))
        cmp("c:dense_vs_isotropic", out_i, scales=True)
    return res


def _scalar_case(case, i):
    """The i-th component of a decoupled problem as a 1-d dense problem."""
    cfg = case["cfg"]
    d, order = cfg["d"], cfg["order"]
    field = sk.make_field(cfg)
    f1 = sk.make_field({**cfg, "d": 1})
    C = np.asarray(case["C"], float)
    C1 = np.zeros((1, f1.M))
    tcol, tcol1 = field.nvars - 1, f1.nvars - 1
    for m, a in enumerate(field.alpha):
        if C[i, m] == 0:
            continue
        a1 = [0] * f1.nvars
        for j, e in enumerate(a):
            if e == 0:
                continue
            if j == tcol:
                a1[tcol1] = e
            else:
                k, ii = divmod(j, d)
                a1[k] = e
        C1[0, f1.alpha.index(tuple(a1))] += C[i, m]
    sub = dict(case)
    sub["cfg"] = {**cfg, "fact": "dense", "d": 1}
    sub["C"] = C1.tolist()
    sub["tc"] = [[row[i]] for row in case["tc"]]
    sub["tc_mode"] = "arbitrary_scalar"
    # the component problem must see exactly the same Taylor coefficients as the coupled one
    _, _, tc_full, _, _ = ssmcase.case_arrays({**case, "cfg": {**cfg, "fact": "dense"}})
    sub["tc"] = [[float(tc_full[k][i])] for k in range(cfg["n"])]
    return sub


def _adaptive(res, case):
    cfg = case["cfg"]
    a = ssmcase.adaptive_args(case)
    t0, T = a["t0"], a["t1"]
    save_at = np.asarray([t0] + [t0 + f * (T - t0) for f in case["fracs"]] + [T])
    outs, evs = {}, {}
    for fact in ("dense", "isotropic"):
        outs[fact], evs[fact] = ssmcase.run_save_at(_lib(case, fact), save_at)
    sd, errs_d = sk.accepted_steps(evs["dense"])
    si, errs_i = sk.accepted_steps(evs["isotropic"])
    if not np.all(np.isfinite(outs["dense"]["mean"])):
        raise common.Inconclusive("solve not finite (method limit at this tolerance)")
    res.nontrivial = len(sd) >= 3
    if len(sd) != len(si) or not np.allclose(np.asarray(sd), np.asarray(si), rtol=1e-5, atol=1e-12):
        # a borderline acceptance decision may legitimately flip under different rounding
        margin = min(min(abs(e[3] - 1.0) for e in errs_d), min(abs(e[3] - 1.0) for e in errs_i))
        if margin < 1e-6:
            raise common.Inconclusive("borderline acceptance decision (|error power - 1| < 1e-6)")
        res.violate("adaptive:steps", f"dense and isotropic accept different step sequences ({len(sd)} vs {len(si)} steps)")
        return res
    smooth = cfg["strategy"] != "filter"
    dense_case = _lib(case, "dense")
    ref = ssmcase.reference_on_trace(dense_case, evs["dense"], smooth=smooth)
    try:
        pert = ssmcase.reference_on_trace(dense_case, evs["dense"], smooth=smooth, perturb=ssmcase.PERTURB)
    except common.Inconclusive:
        pert = None
    K_ = len(save_at)
    # step sizes agree up to rounding-level jitter; covariances scale like h^(2q+1), so that jitter enters the comparison
    jitter = float(np.max(np.abs(np.asarray(sd) - np.asarray(si)) / np.maximum(np.abs(np.asarray(sd)), 1e-300))) if sd else 0.0
    ssmcase.compare_marginals(res, "adaptive:dense_vs_isotropic", dense_case, outs["isotropic"]["mean"], outs["isotropic"]["cov"], ref, pert,
                              expected=(outs["dense"]["mean"], outs["dense"]["cov"]), lib_idx=list(range(K_)), idx=list(range(K_)),
                              tol0=max(1e-7 if smooth else 1e-8, 100.0 * cfg["n"] * jitter))
    sa, sb = np.asarray(outs["isotropic"]["scale"], float), np.asarray(outs["dense"]["scale"], float)
    rt = _scale_tol(ref, pert)
    if rt is not None and (sa.shape != sb.shape or not np.allclose(sa, sb, rtol=max(rt, 1e-6), atol=0)):
        res.violate("adaptive:scale", "dense and isotropic output scales differ in an adaptive run")
    return res
