"""C17 - Jacobian handlers return exact or exactly-unbiased Jacobian blocks."""

import itertools

import numpy as np
from hypothesis import strategies as st

from vlib import common, gen

ID = "C17"
BUDGET = {"quick": 960, "thorough": 24000}
LEVEL = "exploration"
TECHNIQUE = "property-based testing (Hypothesis) with exact polynomial Jacobians; Rademacher draws replaced by the full enumeration of sign patterns (exact unbiasedness, not Monte Carlo)"
LEVEL_TEXT = (
    "Generated quadratic polynomial maps (n_in,d)->(n_out,d) with cross-dimension coupling, random evaluation points, all three handlers. "
    "The exact Jacobian J[m,k,n,j] is known in closed form; materialize_dense must equal it, the per-dimension diagonal and the trace "
    "along d must equal their definitions. For the stochastic handlers backend.random.rademacher is replaced by ALL 2^(n*d) sign "
    "patterns (num_probes set accordingly), so the handler's average is the exact expectation and must equal the exact block. Keys "
    "must advance on every call; malformed fun/x must raise TypeError/ValueError."
)
LEVEL_NOTE = "Trusted: closed-form Jacobian of a quadratic map in NumPy; patching of probdiffeq.backend.random.rademacher (the only source of probes)."
RULE = (
    "case = (handler, n_in, n_out, d <= 4 with n*d <= 10, linear+quadratic coefficient tensors, point, or an invalid-input kind); non-trivial = "
    "n_in != n_out, d >= 2 and non-zero cross-dimension blocks; distinct by JSON hash"
)
ASSUMPTIONS = ["x64; eager execution"]
REQUIRED_LABELS = ["handler:materialize", "handler:mc_fwd", "handler:mc_rev", "invalid_input", "cross_dim"]
TOL = 1e-11


@st.composite
def _case(draw):
    handler = draw(st.sampled_from(["materialize", "materialize_jacrev", "mc_fwd", "mc_rev"]))
    d = draw(st.integers(1, 4))
    n_in = draw(st.integers(1, max(1, min(4, 10 // d))))
    n_out = draw(st.integers(1, max(1, min(4, 10 // d))))
    P = n_in * d
    case = dict(handler=handler, d=d, n_in=n_in, n_out=n_out,
                A=draw(gen.mat(n_out * d, P, gen.quarter(-8, 8))),
                Q=[draw(gen.mat(P, P, gen.quarter(-4, 4))) for _ in range(n_out * d)] if draw(st.booleans()) else None,
                c=draw(gen.vec(n_out * d)),
                x=draw(gen.vec(P, gen.quarter(-8, 8))),
                invalid=draw(st.sampled_from([None, None, None, None, "x_rank1", "x_rank3", "f_rank1", "f_trailing", "f_list", "x_list"])),
                op=draw(st.sampled_from(["dense", "diag", "trace"])))
    return case


def strategy(ctx):
    return _case()


def _handler(name, num_probes):
    from probdiffeq import probdiffeq as pd

    if name == "materialize":
        return pd.jacobian_materialize()
    if name == "materialize_jacrev":
        import jax

        return pd.jacobian_materialize(jacfun=jax.jacrev)
    if name == "mc_fwd":
        return pd.jacobian_monte_carlo_fwd(seed=3, num_probes=num_probes)
    return pd.jacobian_monte_carlo_rev(seed=3, num_probes=num_probes)


class EnumPatch:
    """rademacher(key, shape=(s, *probe)) -> all sign patterns of one probe, repeated s / 2^m times (m = entries of a probe)."""

    def __init__(self):
        self.keys = []

    def __enter__(self):
        import jax
        import jax.numpy as jnp
        from probdiffeq.backend import random as R

        self.R, self.orig = R, R.rademacher

        def rademacher(key, /, shape, dtype):
            self.keys.append(tuple(np.asarray(jax.random.key_data(key) if jnp.issubdtype(key.dtype, jax.dtypes.prng_key) else key).reshape(-1).tolist()))
            # whatever layout the library asks for: shape = (number of probes, *probe shape). All 2^m sign patterns of the m probe
            # entries are returned, repeated when the number of probes is a multiple of 2^m, so that the average over the probes is
            # the exact expectation under the law the library draws from. Any other count cannot be enumerated -> inconclusive.
            s, rest = int(shape[0]), tuple(int(k) for k in shape[1:])
            m = int(np.prod(rest)) if rest else 0
            if m > 20 or s % (2**m) != 0:
                raise common.Inconclusive(f"probe layout {tuple(shape)} cannot be enumerated with {s} probes")
            pats = np.asarray(list(itertools.product([-1.0, 1.0], repeat=m))).reshape((2**m,) + rest)
            pats = np.tile(pats, (s // (2**m),) + (1,) * len(rest))
            return jnp.asarray(pats, dtype=dtype)

        R.rademacher = rademacher
        return self

    def __exit__(self, *a):
        self.R.rademacher = self.orig
        return False


def check_case(case):
    import jax
    import jax.numpy as jnp

    res = common.Result()
    d, n_in, n_out = case["d"], case["n_in"], case["n_out"]
    P, O = n_in * d, n_out * d
    A = np.asarray(case["A"], float)
    Q = None if case["Q"] is None else np.asarray(case["Q"], float)
    c = np.asarray(case["c"], float)
    x = np.asarray(case["x"], float)
    hname = case["handler"]
    res.label("handler:" + ("materialize" if hname.startswith("materialize") else hname), f"op:{case['op']}")

    def fun(X):
        v = X.reshape(-1)
        out = jnp.asarray(A) @ v + jnp.asarray(c)
        if Q is not None:
            out = out + jnp.einsum("opq,p,q->o", jnp.asarray(Q), v, v)
        return out.reshape(n_out, d)

    fx_ref = A @ x + c + (np.einsum("opq,p,q->o", Q, x, x) if Q is not None else 0.0)
    J = A + (np.einsum("opq,q->op", Q, x) + np.einsum("oqp,q->op", Q, x) if Q is not None else 0.0)
    J4 = J.reshape(n_out, d, n_in, d)
    diag_ref = np.einsum("mdnd->dmn", J4)
    trace_ref = np.einsum("mdnd->mn", J4)
    off = J4.copy()
    for k in range(d):
        off[:, k, :, k] = 0.0
    if np.any(off != 0):
        res.label("cross_dim")
    res.nontrivial = n_in != n_out and d >= 2 and bool(np.any(off != 0))

    stochastic = hname in ("mc_fwd", "mc_rev")
    nprobe_dim = (n_in if hname == "mc_fwd" else n_out) * d
    handler = _handler(hname, 2**nprobe_dim if stochastic else 1)
    X = jnp.asarray(x.reshape(n_in, d))

    # ---- malformed inputs must be rejected
    if case["invalid"] is not None:
        res.label("invalid_input")
        kind = case["invalid"]
        f_bad, x_bad = fun, X
        if kind == "x_rank1":
            x_bad = X.reshape(-1)
            f_bad = lambda s: fun(s.reshape(n_in, d))  # noqa: E731
        elif kind == "x_rank3":
            x_bad = X[None]
            f_bad = lambda s: fun(s[0])  # noqa: E731
        elif kind == "f_rank1":
            f_bad = lambda s: fun(s).reshape(-1)  # noqa: E731
        elif kind == "f_trailing":
            f_bad = lambda s: jnp.concatenate([fun(s), fun(s)], axis=1)  # noqa: E731
        elif kind == "f_list":
            f_bad = lambda s: [fun(s)]  # noqa: E731
        elif kind == "x_list":
            x_bad = [X]
            f_bad = lambda s: fun(s[0])  # noqa: E731
        method = {"dense": handler.materialize_dense, "diag": handler.calculate_diagonal_along_d, "trace": handler.calculate_trace_along_d}[case["op"]]
        state = handler.init_jacobian_handler()
        try:
            with EnumPatch():
                out = method(f_bad, x_bad, state)
        except (TypeError, ValueError):
            return res
        except RuntimeError as e:
            if "harness:" in str(e):
                return res  # shape accepted only because the harness' enumeration could not serve it
            res.violate("invalid:wrong_exception", f"{kind}: raised {type(e).__name__} instead of TypeError/ValueError")
            return res
        except Exception as e:  # noqa: BLE001
            res.violate("invalid:wrong_exception", f"{kind}: raised {type(e).__name__}: {str(e)[:100]} instead of TypeError/ValueError")
            return res
        res.violate("invalid:accepted", f"{kind}: malformed input was accepted and produced {jax.tree.map(np.shape, out[:2])}")
        return res

    def cmp(tag, got, ref):
        got = np.asarray(got)
        if got.shape != ref.shape:
            res.violate(f"{tag}:shape", f"{tag}: shape {got.shape}, expected {ref.shape}")
            return
        scale = max(float(np.max(np.abs(J))), float(np.max(np.abs(fx_ref))), 1.0)
        e = float(np.max(np.abs(got - ref))) / scale if np.all(np.isfinite(got)) else np.inf
        res.metric(f"{tag}/tol", e / TOL)
        if not e <= TOL:
            res.violate(tag + (":gross" if e > 1e-6 else ""), f"{hname}: {tag} differs from the exact value by {e:.3e}")

    with EnumPatch() as ep:
        with common.lib_call(hname):
            state0 = handler.init_jacobian_handler()
            fx1, Jd, state1 = handler.materialize_dense(fun, X, state0)
            fx2, Jdiag, state2 = handler.calculate_diagonal_along_d(fun, X, state1)
            fx3, Jtr, state3 = handler.calculate_trace_along_d(fun, X, state2)
            fx4, Jtr2, state4 = handler.calculate_trace_along_d(fun, X, state3)
    cmp("value", fx1, fx_ref.reshape(n_out, d))
    cmp("value", fx2, fx_ref.reshape(n_out, d))
    cmp("value", fx3, fx_ref.reshape(n_out, d))
    cmp("dense", Jd, J4)
    cmp("diagonal", Jdiag, diag_ref)
    cmp("trace", Jtr, trace_ref)
    cmp("trace", Jtr2, trace_ref)
    if stochastic:
        # keys advance on every call and every draw uses a fresh key
        def kd(k):
            return tuple(np.asarray(jax.random.key_data(k) if jnp.issubdtype(k.dtype, jax.dtypes.prng_key) else k).reshape(-1).tolist())

        chain = [kd(state1), kd(state2), kd(state3), kd(state4)]
        if kd(state1) != kd(state0):
            pass  # materialize_dense draws nothing; the key may stay
        if chain[1] == chain[0] or chain[2] == chain[1] or chain[3] == chain[2]:
            res.violate("key:not_advanced", "a stochastic call returned the key it was given")
        if len(set(ep.keys)) != len(ep.keys):
            res.violate("key:reused", "two calls drew their probes with the same key")
        if len(ep.keys) != 3:
            res.violate("key:draws", f"{len(ep.keys)} probe draws for 3 stochastic calls")
    return res
