"""C03 - the smoothing posterior equals the exact Rauch-Tung-Striebel posterior."""

import numpy as np
from hypothesis import strategies as st

from vlib import common, gen, ssmcase
from vlib import solverkit as sk
from vlib.ref import kalman as K

ID = "C03"
BUDGET = {"quick": 640, "thorough": 16000}
LEVEL = "exploration"
TECHNIQUE = "property-based differential testing (Hypothesis) against an mpmath RTS smoother on the steps actually taken; joint law rebuilt from the returned backward factorisation"
LEVEL_TEXT = (
    "Generated-input search over three ways of producing a smoothing posterior: fixed-interval on fixed grids, fixed-interval on "
    "adaptive save-every-step runs (clipped: last step ends exactly at T; unclipped: oversteps), fixed-point with checkpoints. "
    "Marginals at every output time are compared with an independent RTS smoother (mpmath) on the recorded step sequence; the final "
    "marginal must equal the filtering marginal when the last step ends at T; smoothed variances must not exceed filtered ones; the "
    "returned backward factorisation must reproduce the marginals and the cross-covariances; fixed-interval and fixed-point must agree "
    "on a shared grid."
)
LEVEL_NOTE = "Trusted: mpmath reference (50 digits), recording proxies; tolerances are blockwise and condition-aware (perturbed-reference estimate x 100, floor 1e-9)."
RULE = (
    "case = (mode, solver structure from a seeded pool, problem values, grid / tolerances / checkpoints); non-trivial = >= 3 output times "
    "and a non-identity backward conditional; classes 'ends exactly at T' and 'oversteps' must both be populated"
)
ASSUMPTIONS = ["jacobian_materialize(); IWP priors; x64"]
REQUIRED_LABELS = ["mode:fixed_grid", "mode:fixedpoint", "mode:every_step", "ends_at_T", "oversteps", "fact:dense", "fact:isotropic", "fact:blockdiag"]
MAX_INCONCLUSIVE = 0.5
# floor of the tolerance for smoothing quantities (the backward recursion inverts predicted
# covariances; measured library-vs-mpmath differences reach 2e-8 where the rounding model says 1e-10)
SMOOTH_TOL0 = 1e-7
# quantities recomposed from the returned backward conditionals (products of gains) amplify the
# conditionals' own rounding; measured up to 3e-6 at n = 8 with diffuse initial derivatives
JOINT_TOL0 = 1e-5


def strategy(ctx):
    rng = ctx.rng("c03-pool")
    size = 3 if ctx.tier == "quick" else 6
    pool_fixed = [ssmcase.draw_structure(rng, strategies=("fixedinterval",), steps=(2, 10)) for _ in range(size)]
    # one implicit residual (Jacobian w.r.t. the highest derivative is not the identity) per pool
    cfg = ssmcase.draw_structure(rng, strategies=("fixedinterval",), nmax=6, steps=(2, 8), lins=("implicit",))
    cfg["cinit"] = False
    pool_fixed.append(cfg)
    pool_fp = []
    for _ in range(max(1, size // 2)):
        cfg = ssmcase.draw_structure(rng, strategies=("fixedpoint",), nmax=5, dmax=2, inits=("exact", "inexact"), steps=(2, 2))
        cfg["num_ckpt"] = int(rng.integers(3, 7))
        cfg["clip"] = bool(rng.integers(0, 2))
        pool_fp.append(cfg)
    pool_es = []
    for _ in range(max(1, size // 3)):
        cfg = ssmcase.draw_structure(rng, strategies=("fixedinterval",), nmax=4, dmax=2, inits=("exact", "inexact"), steps=(2, 2))
        pool_es.append(cfg)

    @st.composite
    def one(draw):
        mode = draw(st.sampled_from(["fixed_grid", "fixed_grid", "fixed_grid", "fixedpoint", "fixedpoint", "every_step"]))
        if mode == "fixed_grid":
            case = draw(ssmcase.values(draw(st.sampled_from(pool_fixed))))
        elif mode == "fixedpoint":
            cfg = draw(st.sampled_from(pool_fp))
            case = draw(ssmcase.adaptive_values(cfg))
            case["fracs"] = sorted(draw(st.lists(st.floats(0.02, 0.98), min_size=cfg["num_ckpt"] - 2, max_size=cfg["num_ckpt"] - 2, unique=True)))
        else:
            cfg = dict(draw(st.sampled_from(pool_es)))
            cfg["clip"] = draw(st.booleans())
            case = draw(ssmcase.adaptive_values(cfg))
            # few steps: the native-Python loop re-compiles per call
            case["rtol"] = max(case["rtol"], 1e-4)
            case["atol"] = max(case["atol"], 1e-5)
        case["mode"] = mode
        return case

    return one()


def check_case(case):
    res = common.Result()
    cfg = case["cfg"]
    res.label(f"mode:{case['mode']}", f"fact:{cfg['fact']}", f"calib:{cfg['calib'].split('_')[0]}", f"lin:{cfg['lin']}")
    if case["mode"] == "fixed_grid":
        return _fixed_grid(res, case)
    if case["mode"] == "fixedpoint":
        return _fixedpoint(res, case)
    return _every_step(res, case)


def _common_smoother_checks(res, case, out, ref, pert, tag):
    cfg = case["cfg"]
    n, d = cfg["n"], cfg["d"]
    Kn = len(ref["grid"])
    nm, nc = ssmcase.compare_marginals(res, f"{tag}:marginals", case, out["mean"], out["cov"], ref, pert, tol0=SMOOTH_TOL0)
    if nm == 0:
        raise common.Inconclusive("every coefficient block is beyond float64's reach for this case")
    # (c) smoothed variances never exceed filtered ones
    vs = np.diagonal(out["cov"], axis1=1, axis2=2)
    vf = np.diagonal(out["filt_cov"], axis1=1, axis2=2)
    pv = np.diagonal(ref["pcov"], axis1=1, axis2=2)
    slack = 1e-9 * vf + 1e-14 * pv
    if np.any(vs > vf + slack):
        worst = float(np.max((vs - vf) / np.maximum(vf + 1e-5 * pv, 1e-300)))
        res.violate(f"{tag}:variance_order", f"a smoothed variance exceeds the filtered one (relative excess {worst:.3e})")
    # (d) backward factorisation reproduces marginals and cross-covariances
    bw = ssmcase.backward_dense(out, cfg)
    if len(bw) != Kn - 1:
        res.violate(f"{tag}:bw_length", f"{len(bw)} backward conditionals for {Kn} output times")
        return
    # rebuild the joint law from (terminal marginal, backward conditionals) in 50-digit arithmetic:
    # the harness must not add covariance-form rounding of its own
    Nmp = K.Num(mp=True)
    m, P = Nmp.arr(np.asarray(out["post_marg_mean"], float)), Nmp.arr(np.asarray(out["post_marg_cov"], float))
    means, covs, cross = [None] * Kn, [None] * Kn, [None] * (Kn - 1)
    means[-1], covs[-1] = m, P
    nontrivial_bw = False
    for i in range(Kn - 2, -1, -1):
        A, b, Q = bw[i]
        if not np.allclose(A, np.eye(len(A))) or np.any(Q):
            nontrivial_bw = True
        A, b, Q = Nmp.arr(A), Nmp.arr(b), Nmp.arr(Q)
        cross[i] = A @ covs[i + 1]
        means[i] = A @ means[i + 1] + b
        covs[i] = A @ covs[i + 1] @ A.T + Q
    means = [Nmp.to_float(x) for x in means]
    covs = [Nmp.to_float(x) for x in covs]
    cross = [Nmp.to_float(x) for x in cross]
    res.nontrivial = Kn >= 3 and nontrivial_bw
    if nm < n or nc < n * n:
        # recomposing products of gains is (much) worse conditioned than the marginals themselves:
        # only done where every marginal block is within float64's reach
        res.label(f"{tag}:joint_skipped_illcond")
        return None
    res.label(f"{tag}:joint_checked")
    # entrywise conditioning of the recomposition itself: cov_i = A cov_{i+1} A^T + Q is accurate to 64 eps x the sum of the absolute
    # terms, which can exceed the result by many orders (calibrated covariances of 1e-19 next to gains of 1e4: seed-0 false alarm, a
    # 10 % difference in a variance of 2e-19). Entries whose bound exceeds a tenth of the comparison tolerance are not compared (counted).
    Gabs = np.abs(np.asarray(out["post_marg_cov"], float))
    covs = [np.array(c, float) for c in covs]
    masked = 0
    for i in range(Kn - 2, -1, -1):
        Aa, Qa = np.abs(np.asarray(bw[i][0], float)), np.abs(np.asarray(bw[i][2], float))
        Gabs = Aa @ Gabs @ Aa.T + Qa
        dd = np.sqrt(np.clip(np.diag(ref["cov"][i]), 0, None))
        dp = np.sqrt(np.clip(np.diag(ref["pcov"][i]), 0, None))
        sc = np.maximum(np.outer(dd, dd) + 1e-5 * np.outer(dp, dp), 1e-300)
        mask = 64.0 * np.finfo(float).eps * Gabs / sc > JOINT_TOL0
        masked += int(mask.sum())
        covs[i] = np.where(mask, np.asarray(ref["cov"][i], float), covs[i])
    if masked:
        res.label(f"{tag}:joint_entries_beyond_float64")
    ssmcase.compare_marginals(res, f"{tag}:joint_marginals", case, np.asarray(means), np.asarray(covs), ref, pert, tol0=JOINT_TOL0)
    return cross


def _cross_checks(res, case, cross, ref_cov, ref_cross, pert_cross, ref_pcov, tag):
    """Cross-covariances between consecutive output times.  Like for the marginals, the
    attainable accuracy is the worst one over the whole run (a per-step estimate from a single
    perturbation sample is fragile when one step is well and its neighbour ill conditioned)."""
    if pert_cross is None:
        return
    e = a = 0.0
    for i, C in enumerate(cross):
        e = max(e, ssmcase.cross_error(C, ref_cross[i], ref_cov[i], ref_cov[i + 1], ref_pcov[i], ref_pcov[i + 1]))
        a = max(a, ssmcase.cross_error(pert_cross[i], ref_cross[i], ref_cov[i], ref_cov[i + 1], ref_pcov[i], ref_pcov[i + 1]))
    tol = max(10 * JOINT_TOL0, ssmcase.FACTOR * a)
    if tol > ssmcase.SKIP:
        res.label(f"{tag}:cross_skipped_illcond")
        return
    res.metric(f"{tag}:cross/tol", e / tol)
    if e > tol:
        res.violate(f"{tag}:cross" + (":gross" if e > 1e4 * tol else ""), f"{tag}: cross-covariance between consecutive output times off by {e:.3e} (> {tol:.1e})")


def _fixed_grid(res, case):
    cfg = case["cfg"]
    ref = ssmcase.run_reference(case, mp=True, smooth=True)
    try:
        pert = ssmcase.run_reference(case, mp=True, smooth=True, perturb=ssmcase.PERTURB)
    except common.Inconclusive:
        pert = None
    out = ssmcase.run_library(case)
    res.label("ends_at_T")
    cross = _common_smoother_checks(res, case, out, ref, pert, "fixed_grid")
    # (b) last step ends exactly at T: final marginal equals the filtering marginal there
    ssmcase.compare_marginals(res, "fixed_grid:terminal_is_filter", case, out["mean"], out["cov"], ref, pert, idx=[len(ref["grid"]) - 1],
                              expected=(out["filt_mean"][[-1]], out["filt_cov"][[-1]]), lib_idx=[len(ref["grid"]) - 1])
    if cross is not None:
        N = ref["spec"].N
        G = [N.to_float(g) for g in ref["gains"][:-1]]
        ref_cross = [G[i] @ ref["cov"][i + 1] for i in range(len(G))]
        pert_cross = None
        if pert is not None:
            Gp = [N.to_float(g) for g in pert["gains"][:-1]]
            pert_cross = [Gp[i] @ pert["cov"][i + 1] for i in range(len(Gp))]
        _cross_checks(res, case, cross, ref["cov"], ref_cross, pert_cross, ref["pcov"], "fixed_grid")
    return res


def _trace_cross(ref):
    """Cross-covariances between consecutive *reported* nodes from the reference smoother."""
    N = ref["spec"].N
    f = ref["f"]
    ms, Ps, G = K.rts(ref["spec"], f)
    G = [N.to_float(g) if g is not None else None for g in G]
    idx = ref["idx"]
    out = []
    for a, b in zip(idx[:-1], idx[1:]):
        if a == b:
            out.append(ref["all_cov"][a])
        else:
            out.append(ssmcase.reference_cross_cov(ref["all_cov"], G, a, b))
    return out


def _fixedpoint(res, case):
    cfg = case["cfg"]
    a = ssmcase.adaptive_args(case)
    t0, T = a["t0"], a["t1"]
    save_at = np.asarray([t0] + [t0 + f * (T - t0) for f in case["fracs"]] + [T])
    out, ev = ssmcase.run_save_at(case, save_at)
    steps, errs = sk.accepted_steps(ev)
    if len(errs) > 3000:
        raise common.Inconclusive("run needs > 3000 attempts")
    if not np.all(np.isfinite(out["mean"])):
        raise common.Inconclusive("run not finite (method limit at this tolerance)")
    ref = ssmcase.reference_on_trace(case, ev, smooth=True)
    try:
        pert = ssmcase.reference_on_trace(case, ev, smooth=True, perturb=ssmcase.PERTURB)
    except common.Inconclusive:
        pert = None
    if len(ref["grid"]) != len(save_at):
        res.violate("fixedpoint:reports", "number of interpolation reports differs from the number of checkpoints")
        return res
    last_end = steps[-1][0] + steps[-1][1] if steps else t0
    res.label("ends_at_T" if abs(last_end - T) <= case["eps"] else "oversteps")
    cross = _common_smoother_checks(res, case, out, ref, pert, "fixedpoint")
    if cross is not None:
        ref_cross = _trace_cross(ref)
        pert_cross = _trace_cross(pert) if pert is not None else None
        _cross_checks(res, case, cross, ref["cov"], ref_cross, pert_cross, ref["pcov"], "fixedpoint")
    return res


def _every_step(res, case):
    import jax.numpy as jnp

    cfg = case["cfg"]
    a = ssmcase.adaptive_args(case)
    with common.lib_call("save_every_step"):
        call = sk.save_every_step_runner({**cfg, "has_base": a["base"] is not None})
        out, ev, (solver, sol) = call(a["C"], a["tc"], a["t0"], a["t1"], float(case["atol"]), float(case["rtol"]),
                                      float(case["dt0"]), float(case["eps"]), float(case["damp"]), a["base"], a["std"])
    steps, errs = sk.accepted_steps(ev)
    if not np.all(np.isfinite(out["mean"])):
        raise common.Inconclusive("run not finite (method limit at this tolerance)")
    T = a["t1"]
    last_end = steps[-1][0] + steps[-1][1]
    ends_at = any(e[0] == "interp_at" for e in ev) or abs(last_end - T) <= case["eps"]
    res.label("ends_at_T" if ends_at else "oversteps")
    # every accepted step is reported (save every step); the final report is the state at T
    # build the trace events the way the checkpointed routine would see them: each step end is
    # a report, and the last one is either 'at' T or an interpolation inside the last step
    ev2 = []
    n_acc = 0
    for e in ev:
        ev2.append(e)
        if e[0] == "error" and e[3] >= 1.0:
            n_acc += 1
            if n_acc < len(steps):
                ev2.append(("interp_at", e[1] + e[2], e[1], e[1] + e[2]))
    ref = ssmcase.reference_on_trace(case, ev2, smooth=True)
    try:
        pert = ssmcase.reference_on_trace(case, ev2, smooth=True, perturb=ssmcase.PERTURB)
    except common.Inconclusive:
        pert = None
    if len(ref["grid"]) != len(out["t"]):
        res.violate("every_step:reports", f"{len(out['t'])} outputs for {len(ref['grid'])} expected reports")
        return res
    if np.max(np.abs(out["t"] - ref["grid"])) > case["eps"]:
        res.violate("every_step:times", "reported times differ from step ends / final time")
        return res
    cross = _common_smoother_checks(res, case, out, ref, pert, "every_step")
    if ends_at:
        Kn = len(ref["grid"])
        ssmcase.compare_marginals(res, "every_step:terminal_is_filter", case, out["mean"], out["cov"], ref, pert, idx=[Kn - 1],
                                  expected=(out["filt_mean"][[-1]], out["filt_cov"][[-1]]), lib_idx=[Kn - 1])
    if cross is not None:
        ref_cross = _trace_cross(ref)
        pert_cross = _trace_cross(pert) if pert is not None else None
        _cross_checks(res, case, cross, ref["cov"], ref_cross, pert_cross, ref["pcov"], "every_step")
    return res
