"""C12 - marginal-likelihood losses equal the exact Gaussian log-density of the data."""

import numpy as np
from hypothesis import strategies as st

from vlib import common, gen, lib, ssmcase
from vlib import solverkit as sk
from vlib.ref import kalman as K

ID = "C12"
BUDGET = {"quick": 1600, "thorough": 40000}
LEVEL = "exploration"
TECHNIQUE = "property-based differential testing (Hypothesis): library loss vs dense joint Gaussian log-density (mpmath) rebuilt from the backward factorisation"
LEVEL_TEXT = (
    "Generated-input search: (a) hand-made Markov sequences (random terminal marginal incl. singular/zero covariance, random backward "
    "conditionals with offsets and scalings, all three factorisations) and (b) posteriors produced by smoothers on random problems "
    "(fixed-grid/fixed-interval and checkpoint/fixed-point, exact and inexact initial states); random data, noise levels 1e-6..1e3 per "
    "time and per dimension, every observed Taylor-coefficient index, sum and average mode. The oracle builds the joint law over all "
    "output times from the terminal marginal and the backward conditionals in 50-digit arithmetic, adds the noise and evaluates the "
    "multivariate-normal log-density; the terminal-value loss is compared with the log-density under the terminal marginal."
    ' Corners: the lowest noise level (1e-6) at the initial time of noise-free initial states, at a zero-covariance terminal marginal, or everywhere; up to 12 output times.'
)
LEVEL_NOTE = "Trusted: mpmath Cholesky log-density; dense embedding of the three factorisations (as in C08). Tolerance 1e-7 (hand-made sequences) / 1e-5 (solver posteriors) relative to |quadratic form| + |log det| + N d."
RULE = (
    "case = (source hand-made|solver, factorisation, n, d, N output times, tcoeff_index, average flag, data, noise levels); non-trivial = "
    "N >= 3 and (tcoeff_index >= 1 or unequal noise levels); distinct by JSON hash"
)
ASSUMPTIONS = ["x64; solve_triu=lstsq_svd default of the time-series loss"]
REQUIRED_LABELS = ["src:handmade", "src:solver", "fact:dense", "fact:isotropic", "fact:blockdiag", "average", "sum", "tcoeff>=1", "terminal_loss", "singular_marginal"]
MAX_INCONCLUSIVE = 0.3
TOL = 1e-7        # hand-made sequences
TOL_SOLVER = 1e-5  # posteriors produced by smoothers (high-derivative blocks carry the smoother's own rounding, cf. C03)


@st.composite
def _handmade(draw):
    fact = draw(st.sampled_from(gen.FACTS))
    n = draw(st.integers(1, 4))
    d = draw(st.integers(1, 3))
    N = draw(st.one_of(st.integers(2, 8), st.integers(2, 12 if n * d <= 3 else 8)))  # up to 12 output times (cost of the 50-digit reference grows like (N n d)^3)

    def shapes():
        if fact == "dense":
            return dict(A=(n * d, n * d), b=(n * d,), L=(n * d, n * d), s=(n * d,))
        if fact == "isotropic":
            return dict(A=(n, n), b=(n, d), L=(n, n), s=(n,))
        return dict(A=(d, n, n), b=(d, n), L=(d, n, n), s=(d, n))

    sh = shapes()

    def arr(shape, elem=None):
        size = int(np.prod(shape))
        return np.asarray(draw(gen.vec(size, elem)), float).reshape(shape)

    def chol(kind):
        L = np.tril(arr(sh["L"]))
        if kind == "zero":
            return (L * 0).tolist()
        if kind == "rankdef":
            mask = np.ones(sh["L"][-1])
            mask[draw(st.integers(0, sh["L"][-1] - 1))] = 0.0
            return (L * mask).tolist()
        return (L + 2.0 * np.eye(sh["L"][-1])).tolist()

    spread = draw(st.sampled_from([0.0, 1.0, 3.0]))
    kind_m = draw(st.sampled_from(["well", "well", "rankdef", "zero"]))
    conds = []
    for _ in range(N - 1):
        e = gen.exponent(-spread, spread) if spread else st.just(0.0)
        conds.append(dict(A=(arr(sh["A"]) * 0.5).tolist(), b=arr(sh["b"]).tolist(), L=chol(draw(st.sampled_from(["well", "well", "rankdef"]))),
                          tl=arr(sh["s"], e).tolist(), to=arr(sh["s"], e).tolist()))
    std_shape = (N,) if fact == "isotropic" else (N, d)
    case = dict(src="handmade", fact=fact, n=n, d=d, N=N, kind_m=kind_m, mean=arr(sh["b"]).tolist(), chol=chol(kind_m), conds=conds,
                tcoeff_index=draw(st.integers(0, n - 1)), average=draw(st.booleans()),
                log_std=arr(std_shape, gen.exponent(-6.0, 3.0)).tolist(), equal_std=draw(st.booleans()),
                std_corner=draw(st.sampled_from(["none", "none", "none", "low_first", "low_last", "low_all"])),
                z=arr((N, d), gen.quarter(-12, 12)).tolist(), terminal=draw(st.booleans()))
    return case


def strategy(ctx):
    rng = ctx.rng("c12-pool")
    size = 2 if ctx.tier == "quick" else 6
    pool_fixed = [ssmcase.draw_structure(rng, strategies=("fixedinterval",), nmax=4, steps=(2, 11), calibs=("none", "mle", "dynamic")) for _ in range(size)]
    pool_fp = []
    for _ in range(size):
        cfg = ssmcase.draw_structure(rng, strategies=("fixedpoint",), nmax=4, dmax=2, inits=("exact", "inexact"), steps=(2, 2), calibs=("none", "mle", "dynamic"))
        cfg["num_ckpt"] = int(rng.integers(3, 9))
        cfg["clip"] = False
        pool_fp.append(cfg)

    @st.composite
    def solver_case(draw):
        if draw(st.booleans()):
            # moderate conditioning: the algebra itself is checked at 1e-7 on the hand-made sequences;
            # here the point is the integration with real smoother posteriors
            case = draw(ssmcase.values(draw(st.sampled_from(pool_fixed)), hmin=0.05, hmax=0.5))
            case["tc_mode"] = "arbitrary"
            case["mode"] = "fixed_grid"
            N = case["cfg"]["num_steps"] + 1
        else:
            cfg = draw(st.sampled_from(pool_fp))
            case = draw(ssmcase.adaptive_values(cfg))
            case["fracs"] = sorted(draw(st.lists(st.floats(0.02, 0.98), min_size=cfg["num_ckpt"] - 2, max_size=cfg["num_ckpt"] - 2, unique=True)))
            case["mode"] = "fixedpoint"
            N = cfg["num_ckpt"]
        cfg = case["cfg"]
        n, d = cfg["n"], cfg["d"]
        std_shape = (N,) if cfg["fact"] == "isotropic" else (N, d)
        case.update(src="solver", tcoeff_index=draw(st.integers(0, n - 1)), average=draw(st.booleans()),
                    log_std=np.asarray(draw(gen.vec(int(np.prod(std_shape)), gen.exponent(-6.0, 3.0)))).reshape(std_shape).tolist(),
                    std_corner=draw(st.sampled_from(["none", "none", "none", "low_first", "low_last", "low_all"])),
                    equal_std=draw(st.booleans()),
                    z=np.asarray(draw(gen.vec(N * d, gen.quarter(-12, 12)))).reshape(N, d).tolist(), terminal=draw(st.booleans()))
        return case

    return st.one_of(_handmade(), _handmade(), solver_case())


# ------------------------------------------------------------------------------------


def _mp_logpdf(Nmp, y, mu, Sigma):
    """log N(y; mu, Sigma) in mpmath via Cholesky; returns (logpdf, quad, logdet) as floats."""
    mpm = Nmp.mpm
    k = len(y)
    S = mpm.matrix(k, k)
    for i in range(k):
        for j in range(k):
            S[i, j] = Sigma[i, j]
    try:
        L = mpm.cholesky(S)
    except (ValueError, ZeroDivisionError) as e:
        raise common.Inconclusive("reference covariance of the data is not positive definite") from e
    r = mpm.matrix([y[i] - mu[i] for i in range(k)])
    w = mpm.lu_solve(L, r)
    quad = sum(w[i] ** 2 for i in range(k))
    logdet = 2 * sum(mpm.log(L[i, i]) for i in range(k))
    lp = -quad / 2 - logdet / 2 - k * mpm.log(2 * mpm.pi) / 2
    return float(lp), float(quad), float(logdet)


def _joint(Nmp, mT, PT, bw):
    """Means and the full covariance (blocks) over all output times from terminal + backward model."""
    Kn = len(bw) + 1
    means, covs = [None] * Kn, [None] * Kn
    means[-1], covs[-1] = Nmp.arr(mT), Nmp.arr(PT)
    A_list = [None] * (Kn - 1)
    for i in range(Kn - 2, -1, -1):
        A, b, Q = (Nmp.arr(x) for x in bw[i])
        A_list[i] = A
        means[i] = A @ means[i + 1] + b
        covs[i] = A @ covs[i + 1] @ A.T + Q
    cross = {}
    for j in range(Kn):
        M = covs[j]
        cross[(j, j)] = M
        for i in range(j - 1, -1, -1):
            M = A_list[i] @ M
            cross[(i, j)] = M
    return means, cross


def _obs_rows(n, d, idx):
    """Row indices (coefficient-major) of Taylor coefficient idx."""
    return [idx * d + a for a in range(d)]


def check_case(case):
    res = common.Result()
    if case["src"] == "handmade":
        return _check_handmade(res, case)
    return _check_solver(res, case)


def _std_arrays(case, fact, N, d):
    ls = np.asarray(case["log_std"], float)
    if case["equal_std"]:
        ls = np.ones_like(ls) * ls.reshape(-1)[0]
    # corners named in the property: the lowest noise level (1e-6) exactly where the posterior itself is (nearly) certain -
    # at the initial time of a noise-free initial state, at a zero-covariance terminal marginal, or everywhere
    corner = case.get("std_corner", "none")
    if corner == "low_first":
        ls[0] = -6.0
    elif corner == "low_last":
        ls[-1] = -6.0
    elif corner == "low_all":
        ls = np.ones_like(ls) * -6.0
    std = 10.0**ls
    std_dense = np.repeat(std[:, None], d, axis=1) if fact == "isotropic" else std
    return std, std_dense


def _evaluate(res, case, fact, n, d, N, mT, PT, bw, lib_lml, lib_term, std_dense, data):
    Nmp = K.Num(mp=True)
    idx = case["tcoeff_index"]
    rows = _obs_rows(n, d, idx)
    means, cross = _joint(Nmp, mT, PT, bw)
    k = N * d
    mu = [None] * k
    Sigma = np.empty((k, k), dtype=object)
    for i in range(N):
        for a in range(d):
            mu[i * d + a] = means[i][rows[a]]
    for i in range(N):
        for j in range(N):
            blk = cross[(min(i, j), max(i, j))]
            for a in range(d):
                for b in range(d):
                    v = blk[rows[a], rows[b]] if i <= j else blk[rows[b], rows[a]]
                    Sigma[i * d + a, j * d + b] = v
    for i in range(N):
        for a in range(d):
            Sigma[i * d + a, i * d + a] = Sigma[i * d + a, i * d + a] + Nmp.num(std_dense[i, a]) ** 2
    y = [Nmp.num(v) for v in np.asarray(data, float).reshape(-1)]
    lp, quad, logdet = _mp_logpdf(Nmp, y, mu, Sigma)
    ref = lp / N if case["average"] else lp
    denom = (abs(quad) / 2 + abs(logdet) / 2 + k) / (N if case["average"] else 1)
    TOL = TOL_SOLVER if case["src"] == "solver" else globals()["TOL"]
    err = abs(float(lib_lml) - ref) / max(denom, 1e-300) if np.isfinite(lib_lml) else np.inf
    if np.isfinite(err) and not err <= TOL:
        # condition-aware tolerance (computed only when needed): any float64 evaluation of the backward chain carries errors proportional
        # to the sum of the absolute values of its terms (products of backward gains cancel); move the data's mean and covariance by
        # 64 eps x that sum in both directions and see how far the exact log-density moves - small noise levels amplify this by 1/std^2
        eps64 = 64.0 * np.finfo(float).eps
        means_a, cross_a = _joint(Nmp, np.abs(np.asarray(mT, float)), np.abs(np.asarray(PT, float)), [tuple(np.abs(np.asarray(x, float)) for x in f_) for f_ in bw])
        att = 0.0
        for sgn in (1.0, -1.0):
            mu_p = [mu[i * d + a] + sgn * eps64 * means_a[i][rows[a]] for i in range(N) for a in range(d)]
            Sig_p = np.empty((k, k), dtype=object)
            for i in range(N):
                for j in range(N):
                    blk = cross_a[(min(i, j), max(i, j))]
                    for a in range(d):
                        for b in range(d):
                            v = blk[rows[a], rows[b]] if i <= j else blk[rows[b], rows[a]]
                            Sig_p[i * d + a, j * d + b] = Sigma[i * d + a, j * d + b] + sgn * eps64 * v
            try:
                lp_p, _, _ = _mp_logpdf(Nmp, y, mu_p, Sig_p)
            except common.Inconclusive:
                att = np.inf
                break
            att = max(att, abs(lp_p - lp) / max(denom * (N if case["average"] else 1), 1e-300))
        TOL = max(TOL, 10.0 * att)
        res.label("timeseries:condition_aware")
        if not TOL <= 1e-3:
            res.label("timeseries:skipped_illconditioned")
            err = 0.0
    res.metric("timeseries/tol", err / TOL)
    if not err <= TOL:
        res.violate("timeseries" + (":gross" if not err <= 1e3 * TOL else ""),
                    f"time-series loss {float(lib_lml)!r} vs exact log-density {ref!r} (relative to terms: {err:.3e})")
    if lib_term is not None:
        res.label("terminal_loss")
        muT = [means[-1][r] for r in rows]
        ST = np.empty((d, d), dtype=object)
        for a in range(d):
            for b in range(d):
                ST[a, b] = cross[(N - 1, N - 1)][rows[a], rows[b]]
            ST[a, a] = ST[a, a] + Nmp.num(std_dense[-1, a]) ** 2
        lpT, quadT, logdetT = _mp_logpdf(Nmp, y[-d:], muT, ST)
        errT = abs(float(lib_term) - lpT) / (abs(quadT) / 2 + abs(logdetT) / 2 + d) if np.isfinite(lib_term) else np.inf
        res.metric("terminal/tol", errT / TOL)
        if not errT <= TOL:
            res.violate("terminal" + (":gross" if not errT <= 1e4 * TOL else ""), f"terminal-value loss {float(lib_term)!r} vs exact {lpT!r}")


def _labels(res, case, fact, N):
    res.label(f"src:{case['src']}", f"fact:{fact}", "average" if case["average"] else "sum")
    if case["tcoeff_index"] >= 1:
        res.label("tcoeff>=1")
    res.nontrivial = N >= 3 and (case["tcoeff_index"] >= 1 or not case["equal_std"])


def _data_and_std_args(case, fact, d, N, std, mu_rows):
    """Data = predicted mean of the observed coefficient + z * (noise level + 0.1)."""
    import jax.numpy as jnp

    z = np.asarray(case["z"], float)
    std_dense = np.repeat(std[:, None], d, axis=1) if fact == "isotropic" else std
    data = mu_rows + z * 0.25 * (std_dense + 0.1)
    return data, std_dense, jnp.asarray(data), jnp.asarray(std)


def _check_handmade(res, case):
    import jax
    import jax.numpy as jnp

    from probdiffeq import probdiffeq as pd

    fact, n, d, N = case["fact"], case["n"], case["d"], case["N"]
    _labels(res, case, fact, N)
    if case["kind_m"] in ("rankdef", "zero"):
        res.label("singular_marginal")
    std, std_dense = _std_arrays(case, fact, N, d)
    with common.lib_call("construct"):
        marg = lib.make_normal(fact, n, d, case["mean"], case["chol"])
        conds = [lib.make_cond(fact, n, d, c["A"], c["b"], c["L"], 10.0 ** np.asarray(c["tl"]), 10.0 ** np.asarray(c["to"])) for c in case["conds"]]
        stacked = jax.tree.map(lambda *xs: jnp.stack(xs), *conds)
        seq = pd.MarkovSequence(marg, stacked, reverse=True)
    # dense description of the same sequence (coefficient-major)
    perm = lib.perm_to_coeff_major(fact, n, d)
    mT, PT = lib.normal_to_dense(fact, marg, d)
    mT, PT = mT[perm], PT[np.ix_(perm, perm)]
    bw = []
    for c in conds:
        F, cc, Q = lib.cond_to_dense(fact, c, d)
        bw.append((F[np.ix_(perm, perm)], cc[perm], Q[np.ix_(perm, perm)]))
    # data near the predicted means (float64 recursion is enough for choosing data)
    means = [None] * N
    means[-1] = mT
    for i in range(N - 2, -1, -1):
        means[i] = bw[i][0] @ means[i + 1] + bw[i][1]
    rows = _obs_rows(n, d, case["tcoeff_index"])
    mu_rows = np.asarray([[means[i][r] for r in rows] for i in range(N)])
    if not np.all(np.isfinite(mu_rows)) or np.max(np.abs(mu_rows)) > 1e12:
        raise common.Inconclusive("hand-made sequence overflows")
    data, std_dense, data_j, std_j = _data_and_std_args(case, fact, d, N, std, mu_rows)
    with common.lib_call("loss_lml_timeseries"):
        loss = pd.loss_lml_timeseries(average_pdfs=case["average"], tcoeff_index=case["tcoeff_index"])
        lml = float(loss(data_j, posterior=seq, std=std_j))
    lib_term = None
    if case["terminal"]:
        with common.lib_call("loss_lml_terminal_values"):
            lt = pd.loss_lml_terminal_values(tcoeff_index=case["tcoeff_index"])
            lib_term = float(lt(data_j[-1], marginals=marg, std=std_j[-1]))
    _evaluate(res, case, fact, n, d, N, mT, PT, bw, lml, lib_term, std_dense, data)
    return res


_CACHE = {}


def _solver_runner(cfg, mode, tcoeff_index, average, terminal):
    key = (sk.structure_key(cfg), mode, tcoeff_index, average, terminal, cfg.get("num_ckpt"))
    if key in _CACHE:
        return _CACHE[key]
    import jax
    import jax.numpy as jnp

    from probdiffeq import ivpsolve
    from probdiffeq import probdiffeq as pd

    field = sk.make_field(cfg)

    def run(C, tc, grid_or_save_at, damp, base, init_std, atol, rtol, dt0, z, std):
        ssm = lib.ssm(cfg["fact"])
        vf = sk.make_ode(field, C)
        prior = sk.make_prior(ssm, cfg, [tc[i] for i in range(cfg["n"])], base, init_std)
        constraint = sk.make_constraint(ssm, cfg, vf)
        solver = sk.make_solver(ssm, cfg, constraint, None)
        if mode == "fixed_grid":
            sol = ivpsolve.solve_fixed_grid(solver=solver)(prior, grid=grid_or_save_at, damp=damp)
        else:
            error = sk.make_error(ssm, cfg, vf)
            sol = ivpsolve.solve_adaptive_save_at(solver=solver, error=error, warn=False)(
                prior, save_at=grid_or_save_at, atol=atol, rtol=rtol, dt0=dt0, damp=damp)
        out = sk._solution_outputs(cfg, sol)
        d = cfg["d"]
        N = grid_or_save_at.shape[0]
        mu = sol.u.mean[tcoeff_index]
        std_dense = jnp.repeat(std[:, None], d, axis=1) if cfg["fact"] == "isotropic" else std
        data = mu + z * 0.25 * (std_dense + 0.1)
        loss = pd.loss_lml_timeseries(average_pdfs=average, tcoeff_index=tcoeff_index)
        out["lml"] = loss(data, posterior=sol.solution_full.posterior, std=std)
        out["data"] = data
        if terminal:
            lt = pd.loss_lml_terminal_values(tcoeff_index=tcoeff_index)
            last = jax.tree.map(lambda s: s[-1], sol.u)
            out["lml_terminal"] = lt(data[-1], marginals=last, std=std[-1])
        return out

    fn = jax.jit(run)
    _CACHE[key] = fn
    return fn


def _check_solver(res, case):
    import jax
    import jax.numpy as jnp

    cfg = case["cfg"]
    fact, n, d = cfg["fact"], cfg["n"], cfg["d"]
    field, C, tc, grid, base_vec = ssmcase.case_arrays(case)
    if case["mode"] == "fixed_grid":
        times = grid
    else:
        t0, T = float(grid[0]), float(grid[-1])
        times = np.asarray([t0] + [t0 + f * (T - t0) for f in case["fracs"]] + [T])
    N = len(times)
    _labels(res, case, fact, N)
    res.label(f"mode:{case['mode']}", f"init:{cfg['init']}")
    std, std_dense = _std_arrays(case, fact, N, d)
    base_arg = None
    if case.get("base") is not None:
        base_arg = jnp.asarray(base_vec[0] if fact == "isotropic" else base_vec)
    init_std = sk.init_std_vector(cfg)
    with common.lib_call("solve+loss"):
        fn = _solver_runner({**cfg, "has_base": base_arg is not None}, case["mode"], case["tcoeff_index"], case["average"], case["terminal"])
        out = fn(jnp.asarray(C), jnp.asarray(tc), jnp.asarray(times), float(case["damp"]), base_arg, jnp.asarray(init_std),
                 float(case.get("atol", 1e-3)), float(case.get("rtol", 1e-3)), float(case.get("dt0", 0.1)),
                 jnp.asarray(np.asarray(case["z"], float)), jnp.asarray(std))
        out = jax.tree.map(np.asarray, out)
    if not np.all(np.isfinite(out["mean"])):
        raise common.Inconclusive("solve not finite (method limit at this tolerance)")
    if cfg["init"] == "exact":
        res.label("singular_marginal") if False else None
    bw = ssmcase.backward_dense(out, cfg)
    mT, PT = np.asarray(out["post_marg_mean"], float), np.asarray(out["post_marg_cov"], float)
    lib_term = float(out["lml_terminal"]) if case["terminal"] else None
    _evaluate(res, case, fact, n, d, N, mT, PT, bw, float(out["lml"]), lib_term, std_dense, out["data"])
    return res
