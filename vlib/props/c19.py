"""C19 - constrained least-squares points are feasible, optimal, exact if affine."""

import numpy as np
from hypothesis import strategies as st

from vlib import common, gen

ID = "C19"
BUDGET = {"quick": 800, "thorough": 24000}
LEVEL = "exploration"
TECHNIQUE = "property-based testing (Hypothesis): validity predicates (truthful exit status, range condition of the last Gauss-Newton step) and exact Gaussian conditioning for affine constraints"
LEVEL_TEXT = (
    "Generated constraints g(x) = J0 x + c + eps * quadratic(x) with 1..D-1 rows on D <= 10 variables (affine: eps = 0; mildly nonlinear: "
    "eps <= 0.1), means, covariance factors that are well conditioned, rank deficient or zero - constructed so that the constraint is "
    "attainable inside mean + range(L) - tolerances 1e-12..1e-4, iteration budgets 1..50, and starting points at the mean (as the library's own "
    "callers do), near it, far from it, or already feasible. Checked: iters <= budget; reported final "
    "constraint and increment are the recomputed ones; the exit status is truthful; the displacement from the mean lies in "
    "range(L L^T J(x_prev)^T) (first-order optimality up to the last increment); affine constraints give the Gaussian conditional mean "
    "after one iteration; used as linearisation point the routine makes one dense filter update exact for affine constraints."
    ' Covariance factors include row-scaled, badly conditioned ones (standard deviations down to 1e-7 next to O(1)) with sparse constraint rows; references are in square-root form with tolerances proportional to eps x condition number.'
)
LEVEL_NOTE = "Trusted: NumPy pinv/lstsq reference; the specification admits many valid outputs for nonlinear constraints, so validity predicates are checked rather than one expected answer."
RULE = (
    "case = (D, rows, J0 = [I R] permuted, quadratic part, eps, mean, Cholesky factor kind, feasible point, tol, maxiter, mode); non-trivial = "
    "nonlinear constraint needing >= 2 iterations, or a singular covariance factor; distinct by JSON hash"
)
ASSUMPTIONS = ["x64; lstsq_svd inner solver (default)"]
REQUIRED_LABELS = ["affine", "nonlinear", "singular", "iters>=2", "budget_exhausted", "mode:filter_update", "x0:far", "x0:feasible", "x0:near"]


@st.composite
def _case(draw):
    D = draw(st.integers(2, 10))
    k = draw(st.integers(1, D - 1))
    eps = draw(st.sampled_from([0.0, 0.0, 0.02, 0.1]))
    kind = draw(st.sampled_from(["well", "well", "rankdef", "zero", "ill", "ill_rows"]))
    return dict(D=D, k=k, eps=eps, kind=kind,
                R=draw(gen.mat(k, D - k, gen.quarter(-6, 6))), perm=draw(st.permutations(list(range(D)))),
                Qd=draw(gen.mat(k, D, gen.quarter(-4, 4))), Qx=draw(gen.vec(k, st.integers(0, D - 1))), Qy=draw(gen.vec(k, st.integers(0, D - 1))),
                mean=draw(gen.vec(D, gen.quarter(-8, 8))), L=draw(gen.mat(D, D, gen.quarter(-4, 4))), mask=draw(gen.vec(D, st.integers(0, 1))),
                decades=draw(gen.vec(D, st.integers(-7, 0))), z=draw(gen.vec(D, gen.quarter(-6, 6))),
                log_tol=draw(gen.exponent(-12.0, -4.0)), maxiter=draw(st.sampled_from([1, 1, 2, 3, 5, 10, 50])),
                mode=draw(st.sampled_from(["direct", "direct", "direct", "filter_update"])),
                # starting point of the iteration: the mean (what the library's own callers pass), or a warm start elsewhere
                x0_mode=draw(st.sampled_from(["mean", "mean", "near", "far", "feasible"])), x0_dir=draw(gen.vec(D, gen.quarter(-8, 8))))


def strategy(ctx):
    return _case()


def _problem(case):
    D, k, eps = case["D"], case["k"], case["eps"]
    J0 = np.zeros((k, D))
    J0[:, :k] = np.eye(k)
    J0[:, k:] = np.asarray(case["R"], float)
    J0 = J0[:, np.asarray(case["perm"])]
    L = np.tril(np.asarray(case["L"], float))
    if case["kind"] in ("well", "ill"):
        L = L + 3.0 * np.eye(D)
    if case["kind"] == "ill":
        L = L * 10.0 ** np.asarray(case["decades"], float)[None, :]
    if case["kind"] == "ill_rows":
        # some variables are nearly known (standard deviations down to 1e-7) next to O(1) ones, and the constraint rows are sparse: a row
        # that touches only nearly-known variables can only be met by moving those (valid, but badly scaled: sigma_min(J L) << sigma_max)
        L = (L + 3.0 * np.eye(D)) * 10.0 ** np.asarray(case["decades"], float)[:, None]
        keep = np.asarray(case["mask"], float)[np.asarray(case["perm"])]
        J0 = J0 * np.where(np.abs(J0) == 1.0, 1.0, keep[None, :])  # pivots stay, the other entries are thinned out
    if case["kind"] == "rankdef":
        mask = np.asarray(case["mask"], float)
        mask[int(case["Qx"][0]) % D] = 0.0
        L = (L + 3.0 * np.eye(D)) * mask[None, :]
    if case["kind"] == "zero":
        L = L * 0.0
    Qd = np.asarray(case["Qd"], float)
    qx, qy = np.asarray(case["Qx"]), np.asarray(case["Qy"])
    m = np.asarray(case["mean"], float)

    def quad(x, xp=np):
        # one bilinear term x[qx]*x[qy] plus a diagonal quadratic per row
        return x[qx] * x[qy] + (xp.asarray(Qd) @ (x * x))

    def jac_quad(x):
        Jq = 2.0 * Qd * x[None, :]
        for r in range(k):
            Jq[r, qx[r]] += x[qy[r]]
            Jq[r, qy[r]] += x[qx[r]]
        return Jq

    xstar = m + L @ np.asarray(case["z"], float)
    c = -(J0 @ xstar + eps * quad(xstar))
    return J0, L, m, c, quad, jac_quad, xstar


def check_case(case):
    import jax.numpy as jnp

    from probdiffeq import probdiffeq as pd

    res = common.Result()
    D, k, eps = case["D"], case["k"], case["eps"]
    tol, maxiter = 10.0 ** case["log_tol"], case["maxiter"]
    J0, L, m, c, quad, jac_quad, xstar = _problem(case)
    affine = eps == 0.0
    singular = case["kind"] in ("rankdef", "zero")
    res.label("affine" if affine else "nonlinear", f"mode:{case['mode']}")
    if singular:
        res.label("singular")
    J0j, cj = jnp.asarray(J0), jnp.asarray(c)

    def g(x):
        return J0j @ x + cj + eps * quad(x, jnp)

    def g_np(x):
        return J0 @ x + c + eps * quad(x)

    if case["mode"] == "filter_update":
        return _filter_update(res, case, J0, L, m, c, eps, quad)

    with common.lib_call("lstsq_constrained_gauss_newton"):
        solver = pd.lstsq_constrained_gauss_newton(maxiter=maxiter, tol=tol)
        x0_mode = case.get("x0_mode", "mean")
        x0 = {"mean": m, "near": m + 1e-3 * np.asarray(case.get("x0_dir", m), float), "far": m + np.asarray(case.get("x0_dir", m), float),
              "feasible": xstar}[x0_mode]
        res.label(f"x0:{x0_mode}")
        x, stats = solver(g, jnp.asarray(x0), jnp.asarray(m), jnp.asarray(L))
        x = np.asarray(x, float)
        iters = int(stats["iters"])
        fin_c = np.asarray(stats["final_constraint"], float)
        fin_dx = np.asarray(stats["final_increment"], float)
    if iters >= 2:
        res.label("iters>=2")
    res.nontrivial = (not affine and iters >= 2) or singular
    scale = 1.0 + float(np.max(np.abs(m))) + float(np.max(np.abs(x))) if np.all(np.isfinite(x)) else np.inf
    if not np.all(np.isfinite(x)):
        res.violate("not_finite", f"returned point is not finite (iters={iters})")
        return res
    # truthful statistics
    if iters > maxiter:
        res.violate("iters>budget", f"{iters} iterations reported for maxiter={maxiter}")
    gx = g_np(x)
    gscale = np.abs(J0) @ np.abs(x) + np.abs(c) + eps * (np.abs(quad(np.abs(x)))) + 1e-300
    if np.max(np.abs(fin_c - gx) / gscale) > 1e-12:
        res.violate("stats:final_constraint", f"reported final constraint {fin_c.tolist()} but constraint(x) = {gx.tolist()}")
    rms = lambda v: float(np.linalg.norm(v) / np.sqrt(v.size))  # noqa: E731
    feasible = rms(gx) <= tol
    converged = rms(fin_dx) <= tol
    exhausted = iters >= maxiter
    if exhausted and not feasible:
        res.label("budget_exhausted")
    if not (feasible or converged or exhausted):
        res.violate("exit:untruthful", f"stopped after {iters} < {maxiter} iterations with rms(constraint)={rms(gx):.2e}, rms(increment)={rms(fin_dx):.2e} > tol={tol:.1e}")
    if iters == 0:
        # never iterated: only legitimate if the starting point already satisfies the constraint (or maxiter = 0)
        if not rms(g_np(x0)) <= tol:
            res.violate("exit:no_iteration", "no iteration although the constraint is violated at the starting point")
        if not np.array_equal(x, x0):
            res.violate("exit:moved_without_iteration", "point moved although no iteration was reported")
        return res
    # reported increment is the last one: x_prev = x - dx must be consistent with one Gauss-Newton step
    x_prev = x - fin_dx
    Jp = J0 + eps * jac_quad(x_prev)
    # optimality: x - m in range(L L^T J(x_prev)^T)
    B = L @ L.T @ Jp.T
    disp = x - m
    if np.linalg.norm(B) == 0:
        resid = np.linalg.norm(disp)
    else:
        coef, *_ = np.linalg.lstsq(B, disp, rcond=None)
        resid = np.linalg.norm(disp - B @ coef)
    dscale = np.linalg.norm(disp) + 1e-9 * scale
    svB = np.linalg.svd(B, compute_uv=False) if np.any(B) else np.ones(1)
    svB = svB[svB > 1e-16 * svB[0]]
    # B = L L^T J^T squares the scaling of L: membership is resolved to eps x cond(B) over *all* directions the solve treats as genuine
    tol_rg = max(1e-7, 1e3 * np.finfo(float).eps * float(svB[0] / svB[-1]))
    if tol_rg > 1e-2:
        res.label("range:skipped_illconditioned")
        resid = 0.0
    res.metric("range_residual/tol", float(resid / dscale) / tol_rg)
    if not resid <= tol_rg * dscale:
        res.violate("optimality:range" + (":gross" if resid > 1e-3 * dscale else ""),
                    f"displacement from the mean has a component of relative size {resid / dscale:.2e} outside range(L L^T J^T)")
    # the Gauss-Newton step itself: x = m - L (J L)^+ (g(x_prev) + J (m - x_prev))
    H = Jp @ L
    r = g_np(x_prev) + Jp @ (m - x_prev)
    x_gn = m - L @ (np.linalg.pinv(H, rcond=1e-13) @ r)
    cond_ok = _well_posed(H)
    if cond_ok:
        e = float(np.max(np.abs(x - x_gn))) / scale
        tol_gn = max(1e-8, 1e3 * np.finfo(float).eps * _cond(H))  # badly scaled (but valid) factors: error ~ eps x cond
        res.metric("gn_step/tol", e / tol_gn)
        if not e <= tol_gn:
            res.violate("gn_step" + (":gross" if e > 1e-3 else ""), f"returned point is not the Gauss-Newton step from x - final_increment (diff {e:.2e})")
    # affine: Gaussian conditional mean after one iteration, and feasible
    if affine:
        H0 = J0 @ L
        if _well_posed(H0):
            x_ref = m - L @ (np.linalg.pinv(H0, rcond=1e-13) @ (J0 @ m + c))
            e = float(np.max(np.abs(x - x_ref))) / scale
            tol_af = max(1e-8, 1e3 * np.finfo(float).eps * _cond(H0))
            res.metric("affine/tol", e / tol_af)
            if not e <= tol_af:
                res.violate("affine:conditional_mean" + (":gross" if e > 1e-3 else ""), f"affine constraint: result differs from the Gaussian conditional mean by {e:.2e}")
            if rms(gx) > max(tol, 1e-9 * float(np.max(gscale))):
                res.violate("affine:infeasible", f"affine attainable constraint not satisfied: rms = {rms(gx):.2e}")
    return res


def _well_posed(H):
    """Is the least-squares problem with matrix H numerically unambiguous? Singular values between the library's cut-off (eps x size)
    and the reference's (1e-13) would be treated differently by the two: only those make a case ambiguous."""
    if H.size == 0 or not np.any(H):
        return True
    sv = np.linalg.svd(H, compute_uv=False)
    top = sv[0]
    return not np.any((sv > 1e-16 * top) & (sv < 1e-11 * top))


def _cond(H):
    """Condition number over the genuine (> 1e-11 x largest) singular values: comparisons carry an error of ~eps x this."""
    if H.size == 0 or not np.any(H):
        return 1.0
    sv = np.linalg.svd(H, compute_uv=False)
    keep = sv[sv > 1e-11 * sv[0]]
    return float(sv[0] / keep[-1])


def _filter_update(res, case, J0, L, m, c, eps, quad):
    """taylor_point_maximum_a_posteriori inside one dense residual-constraint update (affine: exact)."""
    import jax.numpy as jnp

    from probdiffeq import probdiffeq as pd

    D, k = case["D"], case["k"]
    res.nontrivial = True
    # state: D coefficients of a scalar problem (d = 1); constraint acts on all D coefficients is not
    # expressible through the public residual wrappers (<= 3 arguments), so use the first 3.
    nargs = min(3, D)
    J = J0[:, :nargs].copy()
    if not np.any(J):
        J[0, 0] = 1.0
    Jj, cj = jnp.asarray(J), jnp.asarray(c)

    def gfun(*a, t):
        x = jnp.stack([s[0] for s in a])
        return Jj @ x + cj

    with common.lib_call("filter_update"):
        jac = pd.jacobian_materialize()
        if nargs == 1:
            residual = pd.residual_position(lambda y, /, *, t: gfun(y, t=t), jacobian=jac)
        elif nargs == 2:
            residual = pd.residual_velocity(lambda y, dy, /, *, t: gfun(y, dy, t=t), jacobian=jac)
        else:
            residual = pd.residual_acceleration(lambda y, dy, ddy, /, *, t: gfun(y, dy, ddy, t=t), jacobian=jac)
        ssm = pd.state_space_model_dense()
        nl = pd.lstsq_constrained_gauss_newton(maxiter=max(1, case["maxiter"]), tol=10.0 ** case["log_tol"])
        cons = ssm.constraint_residual(residual, taylor_point=pd.taylor_point_maximum_a_posteriori(nl))
        mean = [jnp.asarray([m[i]]) for i in range(D)]
        std = [jnp.asarray([abs(L[i, i]) + (0.5 if case["kind"] in ("well", "ill") else 0.0)]) for i in range(D)]
        prior = ssm.prior_wiener_integrated_diffuse(mean, std)
        rv = prior.init
        cond, _ = cons.linearize(rv, cons.init_linearization(), damp=0.0, t=0.0)
        from probdiffeq.backend import linalg as pl

        zeros = [jnp.zeros((k,))]
        post = cond.bayes_rule_tree(zeros, rv, solve_triu=pl.lstsq_svd)
        pm, pc = post.to_multivariate_normal()
        pm, pc = np.asarray(pm), np.asarray(pc)
    sd = np.asarray([float(s[0]) for s in std])
    P = np.diag(sd**2)
    Jfull = np.zeros((k, D))
    Jfull[:, :nargs] = J
    Hs = Jfull @ np.diag(sd)
    if not _well_posed(Hs):
        raise common.Inconclusive("ambiguous rank of the observation")
    # square-root form (pinv of J L, not of J P J^T: the latter squares the scaling of badly scaled but valid standard deviations)
    Hp = np.linalg.pinv(Hs, rcond=1e-13)
    m_ref = m - np.diag(sd) @ (Hp @ (Jfull @ m + c))
    P_ref = np.diag(sd) @ (np.eye(D) - Hp @ Hs) @ np.diag(sd)
    scale = 1.0 + np.max(np.abs(m))
    tol_fu = max(1e-8, 1e3 * np.finfo(float).eps * _cond(Hs))
    e = float(np.max(np.abs(pm - m_ref))) / scale
    res.metric("filter_update:mean/tol", e / tol_fu)
    if not e <= tol_fu:
        res.violate("filter_update:mean", f"one filter update with an affine constraint (MAP linearisation point) is off by {e:.2e}")
    ec = float(np.max(np.abs(pc - P_ref))) / (1e-300 + float(np.max(np.abs(P))) + 1e-12)
    res.metric("filter_update:cov/tol", ec / tol_fu)
    if not ec <= tol_fu:
        res.violate("filter_update:cov", f"posterior covariance of the exact affine update is off by {ec:.2e}")
    return res
