"""C06 - adaptive step control is safe for every accept/reject history.

History generator: a scripted Solver / error-estimator pair (public protocols) whose error
estimate realises an arbitrary piecewise-constant admissible step size h_adm(t); the *real*
controllers and the *real* RejectionLoop / solve_adaptive_save_at drive it.  Every call is
reported through ordered callbacks; the invariants are checked on the totally ordered trace.
"""

from typing import NamedTuple

import numpy as np
from hypothesis import strategies as st

from vlib import common, gen

ID = "C06"
BUDGET = {"quick": 4800, "thorough": 160000}
LEVEL = "exploration"
TECHNIQUE = "model-based / stateful property testing (Hypothesis): scripted error profiles generate accept-reject histories; invariants over the ordered call trace of the real loop and controllers"
LEVEL_TEXT = (
    "Generated operation histories: an arbitrary local-error profile (piecewise-constant admissible step size, exponent p) determines "
    "an arbitrary accept/reject sequence of the real rejection loop with the real integral / PI controllers (arbitrary admissible "
    "parameters), checkpoints placed relative to the natural step ends (before / within eps / after / several per step / closer than "
    "eps), dt0 from 1e-3 to 10x the spacing, clip on/off. Nine invariants (I1-I9) are evaluated on the totally ordered trace of every "
    "solver, estimator, controller and interpolation call (incl.: the estimator state handed to an attempt belongs to the last accepted "
    "attempt; a further report inside the same step interpolates from the previously reported state). Hypothesis shrinks profile + checkpoint "
    "list as one value. Three drivers: solve_adaptive_save_at with probe-placed checkpoints; a model-based operation sequence over the public "
    "RejectionLoop (init/loop driven call by call like solve_adaptive_save_at's advance, every next requested time chosen relative to the loop's "
    "current state: the end of the step about to be proposed +- ulp..2 eps, inside it, at/behind/ahead of the current time, inside the step that "
    "has just overshot, closer than eps to the previous request); test_util.solve_adaptive_save_every_step with the final time placed around a "
    "natural step end (output = t0, every accepted step end, the final time exactly once)."
)
LEVEL_NOTE = (
    "Trusted: ordered io_callbacks deliver the call sequence (checked for internal consistency); termination is not part of C06 - "
    "histories exceeding 3000 attempts are ended by the harness and counted inconclusive."
)
RULE = (
    "history = (driver save_at|machine|every_step, controller kind+parameters, clip, error profile (6 pieces), exponent, dt0, eps, and 5 checkpoint "
    "placements relative to probe-run step ends | 3-8 operations choosing the next requested time relative to the loop state | final time relative "
    "to a step end); non-trivial = >= 1 rejection and >= 1 interpolation; distinct by JSON hash"
)
ASSUMPTIONS = ["x64; the scripted solver advances t exactly as a real one (t + dt)"]
REQUIRED_LABELS = ["clip", "noclip", "ctrl:integral", "ctrl:pi", "branch:at_t1", "branch:beyond", "rejection", "clip_taken", "ckpt_skipped_without_step",
                   "mode:save_at", "mode:machine", "mode:every_step", "op:at_proposal", "op:in_step", "op:near_now"]
MAX_INCONCLUSIVE = 0.3
ATTEMPT_BUDGET = 3000
REPORT_BUDGET = 200  # interpolation reports per run (there are at most NUM_CKPT + 1 legitimate ones)
NUM_CKPT = 5
ATOL, RTOL, DAMP = 0.25, 4.0, 0.5  # distinct values handed to the drivers: the scripted estimator must receive exactly these
PIECES = 6


class S(NamedTuple):
    t: object
    u: object
    num_steps: object


class Log:
    def __init__(self):
        self.last = None  # wall-clock time of the last observed event while a run is active
        self.ev = []
        self.attempts = 0
        self.over = False
        self.reports = 0

    def add(self, kind):
        def cb(*a):
            self.touch()
            self.ev.append((kind,) + tuple(np.asarray(x).tolist() for x in a))

        return cb

    def touch(self):
        import time

        if self.last is not None:
            self.last = time.time()

    def watch(self):
        """Background thread: a run that produces no event at all for STALL_S seconds is stalled
        (every legitimate run is bounded by the attempt and report budgets)."""
        import threading
        import time

        def loop():
            while True:
                time.sleep(5.0)
                last = self.last
                if last is not None and time.time() - last > common.STALL_S and common.STALL_HOOK[0] is not None:
                    common.STALL_HOOK[0](f"the adaptive loop made no attempt and no report for {common.STALL_S:.0f} s (normal runs finish in milliseconds): "
                                         "requested times are never reported")

        th = threading.Thread(target=loop, daemon=True)
        th.start()

    def attempt(self, t, dt, u, n):
        self.touch()
        self.ev.append(("step", np.asarray(t).tolist(), np.asarray(dt).tolist(), np.asarray(u).tolist(), np.asarray(n).tolist()))
        self.attempts += 1
        if self.attempts > ATTEMPT_BUDGET:
            self.over = True
        return np.asarray(self.over)

    def report(self, kind, t, ft, tt, n):
        """Interpolation/report events; also a watchdog against loops that spin without stepping."""
        self.touch()
        self.ev.append((kind, np.asarray(t).tolist(), np.asarray(ft).tolist(), np.asarray(tt).tolist(), np.asarray(n).tolist()))
        self.reports += 1
        return np.asarray(self.reports > REPORT_BUDGET)

    def take(self):
        import jax

        jax.effects_barrier()
        ev, over = self.ev, self.over
        self.ev, self.attempts, self.over, self.reports = [], 0, False, 0
        return ev, over


_CACHE = {}


def _parts(kind, log):
    """Scripted Solver / error estimator factory / recording controller factory (public protocols)."""
    import jax
    import jax.numpy as jnp
    from jax.experimental import io_callback

    from probdiffeq import ivpsolve
    from probdiffeq._probdiffeq import utilities  # InterpResult container (public via probdiffeq.probdiffeq too)

    class FakeSolver:
        is_suitable_for_save_at = True
        is_suitable_for_save_every_step = True

        def init(self, t, u, *, damp):
            return S(t=t, u=u, num_steps=jnp.zeros((), dtype=jnp.int64))

        def step(self, state, *, dt, damp):
            over = io_callback(log.attempt, jax.ShapeDtypeStruct((), jnp.bool_), state.t, dt, state.u, state.num_steps, ordered=True)
            dt = jnp.where(over, 1e30, dt)
            return S(t=state.t + dt, u=state.u + dt, num_steps=state.num_steps + 1)

        def interpolate_fwd(self, *, t, interp_from, interp_to):
            import functools

            spin = io_callback(functools.partial(log.report, "interp"), jax.ShapeDtypeStruct((), jnp.bool_), t, interp_from.t, interp_to.t, interp_to.num_steps, ordered=True)
            sol = S(t=t, u=interp_from.u + (t - interp_from.t), num_steps=interp_to.num_steps)
            new_from = S(t=t, u=sol.u, num_steps=interp_from.num_steps)
            # a loop that keeps reporting without stepping is ended by the harness (reported as I5)
            step_from = S(t=jnp.where(spin, 1e30, interp_to.t), u=interp_to.u, num_steps=interp_to.num_steps)
            return sol, utilities.InterpResult(step_from=step_from, interp_from=new_from)

        def interpolate_fwd_at_t1(self, *, t, interp_from, interp_to):
            import functools

            spin = io_callback(functools.partial(log.report, "interp_at"), jax.ShapeDtypeStruct((), jnp.bool_), t, interp_from.t, interp_to.t, interp_to.num_steps, ordered=True)
            step_from = S(t=jnp.where(spin, 1e30, interp_to.t), u=interp_to.u, num_steps=interp_to.num_steps)
            return interp_to, utilities.InterpResult(step_from=step_from, interp_from=interp_to)

        def userfriendly_output(self, *, solution0, solution, solution1):
            ts = jnp.concatenate([solution0.t[None], solution.t])
            us = jnp.concatenate([solution0.u[None], solution.u])
            return S(t=ts, u=us, num_steps=solution.num_steps)

    class RecControl:
        def __init__(self, inner):
            self.inner = inner

        def init(self, dt):
            return self.inner.init(dt)

        def apply(self, dt, state, *, error_power):
            dt_out, new = self.inner.apply(dt, state, error_power=error_power)
            mem_in = state if kind == "pi" else jnp.zeros(())
            mem_out = new if kind == "pi" else jnp.zeros(())
            jax.debug.callback(log.add("ctrl"), dt, error_power, dt_out, mem_in, mem_out, ordered=True)
            return dt_out, new

    def make_error(breaks, values, p):
        class FakeError:
            def init_error(self):
                return jnp.zeros(())

            def estimate_error_norm(self, state, previous, proposed, *, dt, atol, rtol, damp):
                idx = jnp.searchsorted(breaks, previous.t, side="right")
                h_adm = values[idx]
                ep = (h_adm / dt) ** p
                # watchdog step (attempt budget exhausted, the scripted solver jumped): let the run end
                ep = jnp.where(proposed.t - previous.t > 1e29, 1.0, ep)
                jax.debug.callback(log.add("err"), previous.t, dt, ep, proposed.t, state, jnp.asarray(atol, float), jnp.asarray(rtol, float), jnp.asarray(damp, float), ordered=True)
                # the estimator state counts the calls it has seen (like a random key that is advanced per call):
                # the state handed to an attempt must be the one that belongs to the state the attempt starts from
                return ep, state + 1.0

        return FakeError()

    def make_control(cparams):
        if kind == "pi":
            ctrl = ivpsolve.control_proportional_integral(safety=cparams[0], factor_min=cparams[1], factor_max=cparams[2],
                                                          exponent_integral=cparams[3], exponent_proportional=cparams[4])
        else:
            ctrl = ivpsolve.control_integral(safety=cparams[0], factor_min=cparams[1], factor_max=cparams[2])
        return RecControl(ctrl)

    return FakeSolver, make_error, make_control


def _runner(kind, clip, num_save):
    key = (kind, clip, num_save)
    if key in _CACHE:
        return _CACHE[key]
    import jax
    import jax.numpy as jnp

    from probdiffeq import ivpsolve

    log = Log()
    FakeSolver, make_error, make_control = _parts(kind, log)

    def run(save_at, dt0, eps, breaks, values, p, cparams):
        solve = ivpsolve.solve_adaptive_save_at(solver=FakeSolver(), error=make_error(breaks, values, p), control=make_control(cparams), clip_dt=clip, warn=False)
        sol = solve(jnp.zeros(()), save_at=save_at, atol=ATOL, rtol=RTOL, dt0=dt0, eps=eps, damp=DAMP)
        return sol.t, sol.u, sol.num_steps

    jitted = jax.jit(run)
    log.watch()
    compiled = [False]

    def call(save_at, dt0, eps, breaks, values, p, cparams):
        import time

        log.take()
        # the first call compiles (no events yet): give it a generous head start
        log.last = time.time() + (0.0 if compiled[0] else 120.0)
        compiled[0] = True
        try:
            with common.lib_call("solve_adaptive_save_at(scripted)"):
                out = jitted(jnp.asarray(save_at), float(dt0), float(eps), jnp.asarray(breaks), jnp.asarray(values), float(p), jnp.asarray(cparams))
                out = [np.asarray(o) for o in out]
        finally:
            log.last = None
        ev, over = log.take()
        return out, ev, over

    _CACHE[key] = call
    return call


DELTAS = ["0", "+ulp", "-ulp", "+eps/2", "-eps/2", "+2eps", "-2eps", "+0.9eps", "-0.9eps", "+1.1eps", "-1.1eps"]


@st.composite
def _history(draw):
    kind = draw(st.sampled_from(["integral", "pi"]))
    clip = draw(st.booleans())
    T = draw(st.floats(0.5, 4.0))
    fr = sorted(draw(st.lists(st.floats(0.02, 0.98), min_size=PIECES - 1, max_size=PIECES - 1)))
    vals = draw(st.lists(gen.exponent(-2.0, 0.0), min_size=PIECES, max_size=PIECES))
    case = dict(
        kind=kind, clip=clip, T=T, break_fracs=fr, log_h=vals,
        p=draw(st.floats(0.7, 1.3)),
        dt0=draw(gen.log10_uniform(-3.0, 1.0)),
        eps=draw(st.sampled_from([1e-8, 1e-12, 1e-5])),
        safety=draw(st.floats(0.8, 0.99)),
        factor_min=draw(st.floats(0.05, 0.9)),
        factor_max=draw(st.floats(1.1, 20.0)),
        ki=draw(st.floats(0.05, 0.9)),
        kp=draw(st.floats(0.05, 0.9)),
    )
    place = []
    for _ in range(NUM_CKPT):
        place.append(dict(kind=draw(st.sampled_from(["inside", "at_end", "same_step", "at_end", "pair"])),
                          step=draw(st.integers(0, 40)), frac=draw(st.floats(0.05, 0.95)), delta=draw(st.sampled_from(DELTAS))))
    case["place"] = place
    return case


OPS = ["at_proposal", "at_proposal", "inside_proposal", "far", "near_now", "in_step", "in_step", "pair"]


@st.composite
def _machine(draw):
    """Operation sequence for the model-based driver: every operation requests the next time *relative to the
    current state of the loop* (the end of the step the controller is about to propose, inside that step, just
    ahead of the current time, inside the step that has just overshot, closer than eps to the previous request)."""
    case = draw(_history())
    del case["place"]
    case["mode"] = "machine"
    case["ops"] = draw(st.lists(st.fixed_dictionaries(dict(kind=st.sampled_from(OPS), frac=st.floats(0.05, 0.95), delta=st.sampled_from(DELTAS))),
                                min_size=3, max_size=8))
    return case


@st.composite
def _every_step(draw):
    case = draw(_history())
    del case["place"]
    case["mode"] = "every_step"
    # final time relative to a natural step end of the probe run (the driver's loop condition and the clip branch meet here)
    case["end"] = dict(step=draw(st.integers(1, 12)), delta=draw(st.sampled_from(DELTAS + ["+half_step", "-half_step"])))
    return case


def strategy(ctx):
    return st.one_of(_history(), _history(), _history(), _history(), _history(), _machine(), _machine(), _every_step())


def _args(case):
    T = case["T"]
    breaks = np.asarray(case["break_fracs"]) * T
    values = 10.0 ** np.asarray(case["log_h"]) * T
    cparams = [case["safety"], case["factor_min"], case["factor_max"], case["ki"], case["kp"]]
    return breaks, values, cparams


def _checkpoints(case, step_ends):
    eps, T = case["eps"], case["T"]
    starts = [0.0] + list(step_ends)
    pts, last = [], None
    for p in case["place"]:
        i = p["step"] % max(len(step_ends), 1)
        if p["kind"] == "same_step" and last is not None:
            i = last
        last = i
        a, b = starts[i], step_ends[i]
        dl = {"0": 0.0, "+ulp": np.spacing(b), "-ulp": -np.spacing(b), "+eps/2": eps / 2, "-eps/2": -eps / 2, "+2eps": 2 * eps,
              "-2eps": -2 * eps, "+0.9eps": 0.9 * eps, "-0.9eps": -0.9 * eps, "+1.1eps": 1.1 * eps, "-1.1eps": -1.1 * eps}[p["delta"]]
        if p["kind"] in ("inside", "same_step"):
            pts.append(a + p["frac"] * (b - a))
        elif p["kind"] == "pair":  # two requested times closer than eps: second one is produced by the next placement slot
            pts.append(a + p["frac"] * (b - a))
            pts.append(a + p["frac"] * (b - a) + 0.4 * eps)
        else:
            pts.append(b + dl)
    pts = sorted({float(t) for t in pts if 0.0 < t < T})
    pts = pts[:NUM_CKPT]
    k = 1
    while len(pts) < NUM_CKPT:
        cand = T * k / (NUM_CKPT + 3.0)
        if all(abs(cand - t) > 1e-4 * T for t in pts):
            pts.append(cand)
            pts.sort()
        k += 1
    return [0.0] + pts + [T]


def check_case(case):
    res = common.Result()
    kind, clip = case["kind"], case["clip"]
    res.label("clip" if clip else "noclip", f"ctrl:{kind}")
    breaks, values, cparams = _args(case)
    eps, T = case["eps"], case["T"]
    mode = case.get("mode", "save_at")
    res.label(f"mode:{mode}")
    if mode == "machine":
        return _check_machine(res, case, breaks, values, cparams)

    # probe run without checkpoints and without clipping: natural step ends
    (_, _, _), ev0, over0 = _runner(kind, False, 2)([0.0, T], case["dt0"], eps, breaks, values, case["p"], cparams)
    if over0:
        raise common.Inconclusive("attempt budget exhausted in the probe run")
    acc0 = [e for e in ev0 if e[0] == "err" and e[3] >= 1.0]
    step_ends = [e[4] for e in acc0]
    if not step_ends:
        raise common.Inconclusive("probe run without accepted steps")
    if mode == "every_step":
        return _check_every_step(res, case, breaks, values, cparams, step_ends)
    save_at = _checkpoints(case, step_ends)

    (ts, us, nsteps), ev, over = _runner(kind, clip, len(save_at))(save_at, case["dt0"], eps, breaks, values, case["p"], cparams)
    if over:
        raise common.Inconclusive("attempt budget exhausted")
    _monitor(res, case, save_at, ts, us, nsteps, ev)
    return res


def _delta(name, eps, ref, half=0.0):
    return {"0": 0.0, "+ulp": np.spacing(ref), "-ulp": -np.spacing(ref), "+eps/2": eps / 2, "-eps/2": -eps / 2, "+2eps": 2 * eps,
            "-2eps": -2 * eps, "+0.9eps": 0.9 * eps, "-0.9eps": -0.9 * eps, "+1.1eps": 1.1 * eps, "-1.1eps": -1.1 * eps,
            "+half_step": half, "-half_step": -half}[name]


def _every_step_runner(kind, clip):
    """test_util.solve_adaptive_save_every_step (native Python loop around the public RejectionLoop) on the scripted solver."""
    key = ("every", kind, clip)
    if key in _CACHE:
        return _CACHE[key]
    import jax.numpy as jnp

    from probdiffeq.util import test_util

    log = Log()
    FakeSolver, make_error, make_control = _parts(kind, log)
    log.watch()

    def call(T, dt0, eps, breaks, values, p, cparams):
        import time

        solve = test_util.solve_adaptive_save_every_step(FakeSolver(), make_error(jnp.asarray(breaks), jnp.asarray(values), float(p)),
                                                         control=make_control([float(c) for c in cparams]), clip_dt=clip)
        log.take()
        log.last = time.time() + 120.0
        try:
            with common.lib_call("solve_adaptive_save_every_step(scripted)"):
                sol = solve(jnp.zeros(()), 0.0, float(T), atol=ATOL, rtol=RTOL, dt0=float(dt0), eps=float(eps), damp=DAMP)
                out = [np.asarray(sol.t), np.asarray(sol.u), np.asarray(sol.num_steps)]
        finally:
            log.last = None
        ev, over = log.take()
        return out, ev, over

    _CACHE[key] = call
    return call


def _check_every_step(res, case, breaks, values, cparams, step_ends):
    kind, clip, eps = case["kind"], case["clip"], case["eps"]
    k = min(case["end"]["step"], len(step_ends)) - 1
    prev = step_ends[k - 1] if k > 0 else 0.0
    T = step_ends[k] + _delta(case["end"]["delta"], eps, step_ends[k], half=0.5 * (step_ends[k] - prev))
    if not T > 10 * eps:
        raise common.Inconclusive("final time not after the initial time")
    res.label(f"end:{case['end']['delta']}")
    (ts, us, nsteps), ev, over = _every_step_runner(kind, clip)(T, case["dt0"], eps, breaks, values, case["p"], cparams)
    if over:
        raise common.Inconclusive("attempt budget exhausted")
    _monitor(res, case, [0.0, T], ts, us, nsteps, ev, mode="every_step")
    return res


def _machine_runner(kind, clip):
    """The public RejectionLoop driven one call at a time (what solve_adaptive_save_at's `advance` does), so that
    the next requested time can depend on the loop's current state."""
    key = ("machine", kind, clip)
    if key in _CACHE:
        return _CACHE[key]
    import jax
    import jax.numpy as jnp

    from probdiffeq import ivpsolve

    log = Log()
    FakeSolver, make_error, make_control = _parts(kind, log)
    solver = FakeSolver()
    log.watch()

    def mk_loop(breaks, values, p, cparams):
        return ivpsolve.RejectionLoop(solver=solver, clip_dt=clip, error=make_error(breaks, values, p), control=make_control(cparams),
                                      while_loop=jax.lax.while_loop)

    @jax.jit
    def init(dt0, breaks, values, p, cparams):
        s0 = solver.init(t=jnp.zeros(()), u=jnp.zeros(()), damp=0.0)
        return mk_loop(breaks, values, p, cparams).init(s0, dt=dt0)

    @jax.jit
    def apply(state, t1, eps, breaks, values, p, cparams):
        return mk_loop(breaks, values, p, cparams).loop(state, t1=t1, atol=ATOL, rtol=RTOL, eps=eps, damp=DAMP)

    _CACHE[key] = (log, init, apply)
    return _CACHE[key]


def _target(op, sf, dt, last, eps):
    k = op["kind"]
    if k == "at_proposal":     # the end of the step the controller is about to propose (+- a little)
        t = sf + dt + _delta(op["delta"], eps, sf + dt)
    elif k == "inside_proposal":
        t = sf + op["frac"] * dt
    elif k == "far":
        t = sf + (1.0 + 4.0 * op["frac"]) * 2.0 * dt
    elif k == "near_now":      # at / just ahead of / just behind the time the loop has reached
        t = sf + _delta(op["delta"], eps, sf)
    elif k == "in_step":       # inside the step that has overshot the previous request (several requests in one step)
        t = last + op["frac"] * (sf - last) if sf > last else sf + op["frac"] * dt
    else:                      # closer than eps to the previous request
        t = last + 0.4 * eps
    if not t > last:
        t = last + 0.4 * eps
    return float(t)


def _check_machine(res, case, breaks, values, cparams):
    import time

    import jax
    import jax.numpy as jnp

    kind, clip, eps = case["kind"], case["clip"], case["eps"]
    log, init, apply = _machine_runner(kind, clip)
    a = (jnp.asarray(breaks), jnp.asarray(values), float(case["p"]), jnp.asarray(cparams))
    log.take()
    log.last = time.time() + 120.0
    targets, sols, last = [], [], 0.0
    try:
        with common.lib_call("RejectionLoop.init/loop(scripted)"):
            state = init(float(case["dt0"]), *a)
            for op in case["ops"]:
                sf, dt = float(state.step_from.t), float(state.dt)
                t1 = _target(op, sf, dt, last, eps)
                res.label(f"op:{op['kind']}")
                calls = 0
                while True:  # `advance` of solve_adaptive_save_at: always step >= 1x into the loop, continue while step_from.t + eps < t1
                    sol, state = apply(state, t1, float(eps), *a)
                    calls += 1
                    if log.over or calls > ATTEMPT_BUDGET or log.reports > REPORT_BUDGET:
                        break
                    if not float(state.step_from.t) + eps < t1:
                        break
                if log.over or calls > ATTEMPT_BUDGET:
                    raise common.Inconclusive("attempt budget exhausted")
                sols.append(sol)
                targets.append(t1)
                last = t1
    finally:
        log.last = None
    ev, over = log.take()
    if over:
        raise common.Inconclusive("attempt budget exhausted")
    ts = np.asarray([0.0] + [float(s_.t) for s_ in sols])
    us = np.asarray([0.0] + [float(s_.u) for s_ in sols])
    nsteps = np.asarray([int(s_.num_steps) for s_ in sols])
    _monitor(res, case, [0.0] + targets, ts, us, nsteps, ev)
    return res


def _monitor(res, case, save_at, ts, us, nsteps, ev, mode="save_at"):
    kind, clip, eps = case["kind"], case["clip"], case["eps"]
    fmin, fmax = case["factor_min"], case["factor_max"]
    ulp4 = 8 * np.finfo(float).eps

    # internal consistency of the trace itself: step -> err -> ctrl triples
    t_cur, u_cur, n_cur = 0.0, 0.0, 0        # state after the last accepted attempt
    est_cur = 0.0                              # estimator state after the last accepted attempt
    mem_expected = 1.0                         # PI memory: error_power of the last accepted attempt
    reports = []                               # (kind, t, from_t, to_t, num_steps)
    accepted_before_report = []
    n_acc = n_rej = 0
    step_ends_seen = []                        # ends of the accepted attempts, in order
    last_rejected = None                       # (t, dt) of the previous attempt if it was rejected
    next_ckpt = 1                              # index into save_at of the checkpoint being advanced to
    i = 0
    clip_taken = False
    proposal = case["dt0"]
    while i < len(ev):
        e = ev[i]
        if e[0] == "step":
            if i + 2 >= len(ev) or ev[i + 1][0] != "err" or ev[i + 2][0] != "ctrl":
                raise RuntimeError("trace is not made of (step, err, ctrl) triples")
            _, t, dt, u, n = e
            _, te, dte, ep, t_new, est_in, atol_seen, rtol_seen, damp_seen = ev[i + 1]
            if (atol_seen, rtol_seen, damp_seen) != (ATOL, RTOL, DAMP):
                res.violate("I7:estimator_tolerances", f"the error estimator received (atol, rtol, damp) = {(atol_seen, rtol_seen, damp_seen)}, the caller passed {(ATOL, RTOL, DAMP)}")
            _, dt_in, ep_c, dt_out, mem_in, mem_out = ev[i + 2]
            # I1 / I9: every attempt starts from the state of the last accepted attempt, bit-identically
            if t != t_cur or u != u_cur or n != n_cur:
                res.violate("I1/I9:state", f"attempt starts from (t={t}, u={u}, n={n}) but the last accepted state is (t={t_cur}, u={u_cur}, n={n_cur})")
            if te != t or dte != dt:
                res.violate("I7:estimator_args", "error estimator saw a different (t, dt) than the solver step")
            # I9 (estimator part): the estimator state handed to an attempt is the one produced by the last accepted
            # attempt (initially the initial one) - a rejected attempt must not leak its estimator state either
            if est_in != est_cur:
                res.violate("I9:estimator_state", f"attempt from t={t} received estimator state {est_in}, but the state belonging to the last accepted "
                            f"attempt is {est_cur} (a rejected attempt leaked its state)")
            # I3: proposal = attempted step x factor in [factor_min, factor_max]; the attempted step is the clipped one
            if dt_in != dt:
                res.violate("I3:controller_input", f"controller was applied to dt={dt_in}, but the attempted step was dt={dt}")
            ratio = dt_out / dt
            if not (fmin * (1 - ulp4) <= ratio <= fmax * (1 + ulp4)):
                res.violate("I3:factor", f"proposal/attempt = {ratio} outside [{fmin}, {fmax}]")
            # I8: PI memory equals the error power of the last accepted attempt
            if kind == "pi" and mem_in != mem_expected:
                res.violate("I8:pi_memory", f"controller memory {mem_in} != error power of the last accepted attempt {mem_expected}")
            # I2b: after a rejection: same start, strictly smaller attempt
            if last_rejected is not None:
                if t != last_rejected[0] or not dt < last_rejected[1]:
                    res.violate("I2:after_rejection", f"attempt after a rejection: start {t} vs {last_rejected[0]}, dt {dt} vs {last_rejected[1]}")
            # I4: with clipping no attempt ends beyond the checkpoint being advanced to
            if clip and next_ckpt < len(save_at):
                target = save_at[next_ckpt]
                if t + dt > target + 2 * np.spacing(abs(target) + abs(t)):
                    res.violate("I4:clip", f"attempt [{t}, {t + dt}] ends beyond the next checkpoint {target}")
                if dt < proposal:
                    clip_taken = True
            proposal = dt_out
            accepted = ep >= 1.0
            if accepted:
                n_acc += 1
                t_cur, u_cur, n_cur = t + dt, u + dt, n + 1
                if t_new != t_cur:
                    res.violate("I1:time", f"accepted attempt ends at {t_new}, expected {t_cur}")
                mem_expected = ep
                step_ends_seen.append(t_cur)
                est_cur = est_in + 1.0
                last_rejected = None
            else:
                n_rej += 1
                last_rejected = (t, dt)
            i += 3
            continue
        if e[0] in ("interp", "interp_at"):
            if last_rejected is not None:
                res.violate("I2:advance_after_rejection", "interpolation/report happened although the last attempt was rejected")
            reports.append(e)
            accepted_before_report.append(n_acc)
            next_ckpt += 1
            i += 1
            continue
        raise RuntimeError(f"unexpected trace event {e[0]}")

    if n_rej:
        res.label("rejection")
    if clip_taken:
        res.label("clip_taken")
    res.nontrivial = n_rej >= 1 and len(reports) >= 1

    if mode == "every_step":
        return _outputs_every_step(res, case, save_at[-1], ts, us, nsteps, reports, step_ends_seen)

    # I5: every requested time is reported exactly once, in order, at that time up to eps
    K = len(save_at)
    if ts.shape != (K,):
        res.violate("I5:count", f"{ts.shape} reported times for {K} requested")
        return
    if len(reports) != K - 1:
        res.violate("I5:reports", f"{len(reports)} interpolation reports for {K - 1} checkpoints")
        return
    if np.any(np.abs(ts - np.asarray(save_at)) > eps * (1 + 1e-9) + 4 * np.spacing(np.abs(np.asarray(save_at)))):
        k = int(np.argmax(np.abs(ts - np.asarray(save_at))))
        res.violate("I5:time", f"requested {save_at[k]!r} reported at {ts[k]!r} (eps={eps})")
    if np.any(np.diff(ts) < 0):
        res.violate("I5:order", "reported times are not non-decreasing")
    # scripted solution u(t) = t: reported state must be the state at the reported time
    if np.any(np.abs(us - ts) > 1e-9 * (1 + np.abs(ts))):
        res.violate("I5:state", "reported state does not belong to the reported time")
    # I6: interpolation between the two states it interpolates; I7: step counts
    skipped = False
    prev_attempts = None
    prev_report = None
    for k, (r, nb) in enumerate(zip(reports, accepted_before_report), start=1):
        kind_r, t, ft, tt, n_to = r
        if not (ft - eps * (1 + 1e-9) - 4 * np.spacing(abs(ft)) <= t <= tt + eps * (1 + 1e-9) + 4 * np.spacing(abs(tt))):
            res.violate("I6:bracket", f"interpolation at {t} outside [{ft}, {tt}] (+- eps)")
        if kind_r == "interp_at":
            res.label("branch:at_t1")
            # the loop decides with `step_from.t + eps < t1`; comparing |t1 - step_from.t| with eps rounds differently at the boundary
            if abs(tt - save_at[k]) > eps * (1 + 1e-9) + 4 * np.spacing(max(abs(tt), abs(save_at[k]))):
                res.violate("I6:at_t1", f"'at t1' branch used although |{tt} - {save_at[k]}| > eps")
        else:
            res.label("branch:beyond")
            if not tt > save_at[k] + eps * (1 - 1e-9) - 4 * np.spacing(max(abs(tt), abs(save_at[k]))):
                res.violate("I6:beyond", f"'beyond t1' branch used although {tt} <= {save_at[k]} + eps")
        # I6 (continuation): `interp_from` is documented as "the left-hand side of the current subinterval": once a requested time
        # inside a step has been reported, the remaining subinterval starts there, so a further report produced without another
        # accepted attempt must interpolate from the previously reported state (its time: t for an interpolation, the step end for 'at t1')
        if prev_attempts is not None and nb == prev_attempts and prev_report is not None:
            expect_from = prev_report[1] if prev_report[0] == "interp" else prev_report[3]
            if ft != expect_from:
                res.violate("I6:continuation", f"report at {t}: interpolation starts from the state at {ft}, but the previous report (same step) left the "
                            f"loop at {expect_from} (stale left end: several requested times inside one step)")
        prev_report = r
        if int(nsteps[k - 1]) != nb:
            res.violate("I7:num_steps", f"entry {k}: reported {int(nsteps[k - 1])} steps, {nb} attempts were accepted before it was produced")
        if prev_attempts is not None and nb == prev_attempts:
            skipped = True
        prev_attempts = nb
    if skipped:
        res.label("ckpt_skipped_without_step")


def _outputs_every_step(res, case, T, ts, us, nsteps, reports, ends):
    """save-every-step driver: the output is the initial time, the end of every accepted step before the final time, and the
    final time - each exactly once, in order; the final time is reported at that time up to eps; step counts count accepted attempts."""
    eps = case["eps"]
    if len(reports) != 1:
        res.violate("I5:reports(every_step)", f"the final time was reported {len(reports)} times (must be exactly once); accepted step ends {ends[-3:]}, final time {T!r}")
        return
    r = reports[0]
    res.label("branch:at_t1" if r[0] == "interp_at" else "branch:beyond")
    if not (r[2] - eps <= r[1] <= r[3] + eps):
        res.violate("I6:bracket", f"interpolation at {r[1]} outside [{r[2]}, {r[3]}] (+- eps)")
    expected = [0.0] + [e for e in ends[:-1]] + [T]
    if len(ts) != len(expected):
        res.violate("I5:count(every_step)", f"{len(ts)} reported times for {len(ends)} accepted steps")
        return
    if np.any(np.asarray(ts[:-1]) != np.asarray(expected[:-1])):
        res.violate("I5:steps(every_step)", "reported times are not the ends of the accepted steps")
    if abs(ts[-1] - T) > eps * (1 + 1e-9) + 4 * np.spacing(abs(T)):
        res.violate("I5:time", f"final time {T!r} reported at {ts[-1]!r} (eps={eps})")
    if np.any(np.diff(ts) <= 0):
        res.violate("I5:order", "reported times are not increasing")
    if np.any(np.abs(us - ts) > 1e-9 * (1 + np.abs(ts))):
        res.violate("I5:state", "reported state does not belong to the reported time")
    want = list(range(1, len(ends))) + [len(ends)]
    if [int(x) for x in nsteps] != want:
        res.violate("I7:num_steps", f"reported step counts {[int(x) for x in nsteps][-4:]} vs accepted attempts {want[-4:]}")


def pinned_cases(ctx):
    """Regressions of repaired findings (replays/known/C06_*), bypassing Hypothesis."""
    import json
    import os

    if ctx.shard != 0:
        return []
    out = []
    kdir = os.path.join(common.VERIF, "replays", "known")
    for name in sorted(os.listdir(kdir)) if os.path.isdir(kdir) else []:
        if name.startswith("C06_"):
            with open(os.path.join(kdir, name)) as f:
                out.append((name, json.load(f)["case"]))
    return out
