"""C04 - output-scale calibration is the documented estimator and is scale-equivariant."""

import numpy as np
from hypothesis import strategies as st

from vlib import common, gen, ssmcase
from vlib import solverkit as sk

ID = "C04"
BUDGET = {"quick": 480, "thorough": 12000}
LEVEL = "exploration"
TECHNIQUE = "property-based testing (Hypothesis): estimator value against the mpmath reference filter, differential test against the uncalibrated solver, metamorphic base-scale relation incl. the recorded step sequence"
LEVEL_TEXT = (
    "Generated problems, fixed grids and adaptive runs, base-scale factors c = 10^U(-6,6), 3 factorisations x 3 calibration modes x 3 "
    "strategies x TS0/TS1. (a) The reported output scale equals the reference estimator (quasi-MLE as RMS of whitened residuals incl. the "
    "optional initial-constraint datum and the 1/sqrt(N) correction; per-step local estimate in dynamic mode; one in uncalibrated mode; per "
    "dimension for the block-diagonal model). (b) MLE covariances equal the uncalibrated solver's covariances times scale^2 on the same "
    "grid. (c) Multiplying the base scale by c leaves means, the recorded accepted step sequence and calibrated covariances unchanged, "
    "divides the estimated scale by c and multiplies uncalibrated standard deviations by c (zero initial covariance and no damping, where "
    "the relation is mathematically exact). Extra structures use solver(..., constraint_init=...) with inexact / diffuse initial states, "
    "where the initial-constraint residual is the first datum of the estimator (parts (a), (b) only)."
)
LEVEL_NOTE = "Trusted: mpmath reference; recording proxies for the step sequence. Cases whose acceptance decision is borderline (|error power - 1| < 1e-6) are inconclusive for the step-sequence comparison."
RULE = (
    "case = (structure from a seeded pool, problem values, grid or tolerances, factor c); non-trivial = >= 2 steps with distinct residual terms and c "
    "outside [0.5, 2]; distinct by JSON hash"
)
ASSUMPTIONS = ["jacobian_materialize(); IWP priors; x64; exact initial state and zero damping for the metamorphic part"]
REQUIRED_LABELS = ["calib:mle", "calib:dynamic", "calib:none", "adaptive", "cinit", "strategy:fixedinterval", "strategy:fixedpoint", "fact:dense", "fact:isotropic", "fact:blockdiag"]
MAX_INCONCLUSIVE = 0.5


def strategy(ctx):
    rng = ctx.rng("c04-pool")
    size = 3 if ctx.tier == "quick" else 6
    pool = []
    for _ in range(size):
        cfg = ssmcase.draw_structure(rng, strategies=("filter", "fixedinterval"), nmax=6, dmax=3, steps=(2, 8), inits=("exact",),
                                     calibs=("none", "mle", "mle_nocorr", "dynamic"))
        cfg["cinit"] = False
        pool.append(cfg)
    # the estimator with the optional initial-constraint datum (solver(..., constraint_init=...)): needs a non-degenerate
    # initial covariance (inexact / diffuse initial states), where the base-scale relation (c) is not exact - parts (a), (b) only
    for _ in range(max(1, size // 3)):
        cfg = ssmcase.draw_structure(rng, strategies=("filter", "fixedinterval"), nmax=5, dmax=3, steps=(2, 8), inits=("inexact", "diffuse"),
                                     calibs=("mle", "mle_nocorr", "mle", "dynamic", "none"))
        if cfg["init"] == "diffuse":
            cfg["diffuse"] = cfg["n"] - cfg["order"]  # the constrained coefficient is among the diffuse ones
        cfg["cinit"] = True
        pool.append(cfg)
    pool_ad = []
    for _ in range(max(1, size // 2)):
        cfg = ssmcase.draw_structure(rng, strategies=("filter", "fixedpoint"), nmax=5, dmax=2, steps=(2, 2), inits=("exact",),
                                     calibs=("none", "mle", "dynamic"))
        cfg["cinit"] = False
        pool_ad.append(cfg)

    @st.composite
    def one(draw):
        if draw(st.integers(0, 2)) == 0:
            cfg = draw(st.sampled_from(pool_ad))
            case = draw(ssmcase.adaptive_values(cfg))
            case["fracs"] = sorted(draw(st.lists(st.floats(0.05, 0.95), min_size=2, max_size=2, unique=True)))
            case["adaptive"] = True
        else:
            cfg = draw(st.sampled_from(pool))
            case = draw(ssmcase.values(cfg))
            case["adaptive"] = False
        case["damp"] = 0.0
        case["log_c"] = draw(gen.exponent(-6.0, 6.0))
        if case.get("base") is None:
            d = cfg["d"] if cfg["fact"] != "isotropic" else 1
            case["base"] = [1.0] * d
        return case

    return one()


def _scaled(case, c):
    c2 = dict(case)
    c2["base"] = [b * c for b in case["base"]]
    return c2


def _with_calib(case, calib):
    c2 = dict(case)
    c2["cfg"] = {**case["cfg"], "calib": calib}
    return c2


def check_case(case):
    res = common.Result()
    cfg = case["cfg"]
    n, d = cfg["n"], cfg["d"]
    calib = cfg["calib"].split("_")[0]
    res.label(f"calib:{calib}", f"strategy:{cfg['strategy']}", f"fact:{cfg['fact']}", f"lin:{cfg['lin']}")
    c = 10.0 ** case["log_c"]
    smooth = cfg["strategy"] != "filter"
    tol0 = 1e-7 if smooth else None
    if case.get("adaptive"):
        res.label("adaptive")
        return _adaptive(res, case, c, smooth)

    ref = ssmcase.run_reference(case, mp=True, smooth=smooth)
    try:
        pert = ssmcase.run_reference(case, mp=True, smooth=smooth, perturb=ssmcase.PERTURB)
    except common.Inconclusive:
        pert = None
    out = ssmcase.run_library(case)
    K_ = len(ref["grid"])
    res.nontrivial = cfg["num_steps"] >= 2 and not (0.5 <= c <= 2.0)
    idx = list(range(K_))

    # (a) estimator value and calibrated marginals against the reference
    nm, _ = ssmcase.compare_marginals(res, "a:marginals", case, out["mean"], out["cov"], ref, pert, tol0=tol0)
    if nm == 0:
        raise common.Inconclusive("every coefficient block is beyond float64's reach for this case")
    _scale_vs_reference(res, cfg, out, ref, pert)

    # (b) MLE: covariances = uncalibrated covariances x scale^2 on the same grid (means identical)
    if calib == "mle":
        out_u = ssmcase.run_library(_with_calib(case, "none"))
        s = np.asarray(out["scale"], float)[-1]
        fac = np.repeat(np.atleast_1d(s)[None, :], n, axis=0).reshape(-1) if cfg["fact"] == "blockdiag" else np.ones(n * d) * float(s)
        scaled = out_u["cov"] * np.outer(fac, fac)[None]
        ssmcase.compare_marginals(res, "b:mle_vs_unit", case, out["mean"], out["cov"], ref, pert, expected=(out_u["mean"], scaled), lib_idx=idx, idx=idx, tol0=tol0)

    # (c) metamorphic: base scale x c (exact only for zero initial covariance)
    if cfg["init"] != "exact":
        res.label("cinit" if cfg.get("cinit") else "init:inexact")
        res.nontrivial = cfg["num_steps"] >= 2
        return res
    out_c = ssmcase.run_library(_scaled(case, c))
    _metamorphic(res, case, cfg, out, out_c, ref, pert, c, idx, tol0)
    return res


def _scale_vs_reference(res, cfg, out, ref, pert):
    sc_ref = np.asarray(ref["scale"], float)
    sc_lib = np.asarray(out["scale"], float)
    if not cfg["calib"].startswith("dynamic"):
        sc_ref = sc_ref[1:]
    if sc_lib.shape != sc_ref.shape:
        res.violate("a:scale_shape", f"output_scale shape {sc_lib.shape} vs {sc_ref.shape}")
        return
    lo = 1 if cfg["calib"].startswith("dynamic") else 0
    if pert is None:
        return
    sp = np.asarray(pert["scale"], float)
    if not cfg["calib"].startswith("dynamic"):
        sp = sp[1:]
    att = float(np.max(np.abs(sp[lo:] - sc_ref[lo:]) / np.maximum(np.abs(sc_ref[lo:]), 1e-300)))
    tol = max(10 * ssmcase.TOL0, ssmcase.FACTOR * att)
    if tol > ssmcase.SKIP:
        res.label("a:scale_illcond")
        return
    es = float(np.max(np.abs(sc_lib[lo:] - sc_ref[lo:]) / np.maximum(np.abs(sc_ref[lo:]), 1e-300)))
    res.metric("a:scale/tol", es / tol)
    if not es <= tol:
        res.violate("a:scale" + (":gross" if es > 1e4 * tol else ""), f"reported output scale differs from the documented estimator by {es:.3e}")


def _metamorphic(res, case, cfg, out, out_c, ref, pert, c, idx, tol0):
    n, d = cfg["n"], cfg["d"]
    calib = cfg["calib"].split("_")[0]
    if calib == "none":
        expected_cov = out["cov"] * c * c  # uncalibrated standard deviations scale with c
    else:
        expected_cov = out["cov"]  # calibrated covariances are invariant
    ssmcase.compare_marginals(res, f"c:rescaled({calib})", case, out_c["mean"], out_c["cov"] / (c * c if calib == "none" else 1.0), ref, pert,
                              expected=(out["mean"], out["cov"]), lib_idx=idx, idx=idx, tol0=tol0)
    s1, s2 = np.asarray(out["scale"], float), np.asarray(out_c["scale"], float)
    lo = 1 if calib == "dynamic" and s1.shape[0] == len(idx) else 0
    if calib == "none":
        if not (np.all(s1 == 1.0) and np.all(s2 == 1.0)):
            res.violate("c:scale_uncalibrated", "uncalibrated solver reports an output scale other than one")
    else:
        ratio = s2[lo:] * c / np.maximum(s1[lo:], 1e-300)
        att = 1e-7
        e = float(np.max(np.abs(ratio - 1.0)))
        res.metric("c:scale_equivariance/tol", e / 1e-6)
        if not e <= 1e-6:
            res.violate("c:scale_equivariance" + (":gross" if e > 1e-2 else ""), f"estimated scale x c / original = {ratio.reshape(-1)[:4]} for c = {c:.3g} (should be 1)")


def _adaptive(res, case, c, smooth):
    cfg = case["cfg"]
    a = ssmcase.adaptive_args(case)
    t0, T = a["t0"], a["t1"]
    save_at = np.asarray([t0] + [t0 + f * (T - t0) for f in case["fracs"]] + [T])
    out, ev = ssmcase.run_save_at(case, save_at)
    steps, errs = sk.accepted_steps(ev)
    if not np.all(np.isfinite(out["mean"])):
        raise common.Inconclusive("solve not finite (method limit at this tolerance)")
    ref = ssmcase.reference_on_trace(case, ev, smooth=smooth)
    try:
        pert = ssmcase.reference_on_trace(case, ev, smooth=smooth, perturb=ssmcase.PERTURB)
    except common.Inconclusive:
        pert = None
    K_ = len(save_at)
    idx = list(range(K_))
    tol0 = 1e-7 if smooth else None
    res.nontrivial = len(steps) >= 2 and not (0.5 <= c <= 2.0)
    nm, _ = ssmcase.compare_marginals(res, "a:marginals(adaptive)", case, out["mean"], out["cov"], ref, pert, tol0=tol0)
    if nm == 0:
        raise common.Inconclusive("every coefficient block is beyond float64's reach for this case")
    # scale against the reference (entries per checkpoint after the first)
    sc_ref = np.asarray(ref["scale"], float)[1:]
    sc_lib = np.asarray(out["scale"], float)[-(K_ - 1):]
    if sc_lib.shape == sc_ref.shape and pert is not None:
        att = float(np.max(np.abs(np.asarray(pert["scale"], float)[1:] - sc_ref) / np.maximum(np.abs(sc_ref), 1e-300)))
        tol = max(10 * ssmcase.TOL0, ssmcase.FACTOR * att)
        if tol <= ssmcase.SKIP:
            es = float(np.max(np.abs(sc_lib - sc_ref) / np.maximum(np.abs(sc_ref), 1e-300)))
            res.metric("a:scale(adaptive)/tol", es / tol)
            if not es <= tol:
                res.violate("a:scale(adaptive)", f"reported output scale differs from the documented estimator by {es:.3e}")
    # metamorphic: the accepted step sequence must not change
    out_c, ev_c = ssmcase.run_save_at(_scaled(case, c), save_at)
    steps_c, errs_c = sk.accepted_steps(ev_c)
    # identical step *counts* and step sizes up to rounding-level jitter (the scaled arithmetic rounds
    # differently; the jitter enters the value comparison below through h^(2q+1))
    if len(steps) != len(steps_c) or not np.allclose(np.asarray(steps), np.asarray(steps_c), rtol=1e-5, atol=1e-12):
        margin = min(min(abs(e[3] - 1.0) for e in errs), min(abs(e[3] - 1.0) for e in errs_c))
        if margin < 1e-6:
            raise common.Inconclusive("borderline acceptance decision (|error power - 1| < 1e-6)")
        res.violate("c:steps", f"accepted step sequence changes with the base scale ({len(steps)} vs {len(steps_c)} steps, c={c:.3g})")
        return res
    jitter = float(np.max(np.abs(np.asarray(steps) - np.asarray(steps_c)) / np.maximum(np.abs(np.asarray(steps)), 1e-300))) if steps else 0.0
    _metamorphic(res, case, cfg, out, out_c, ref, pert, c, idx, max(tol0 or ssmcase.TOL0, 100.0 * cfg["n"] * jitter))
    return res
