"""Adapters around the library under test (always imported from /repo's working tree)."""

import functools

import jax
import jax.numpy as jnp
import numpy as np

from probdiffeq import ivpsolve, probdiffeq  # noqa: F401


def ssm(fact):
    return {
        "dense": probdiffeq.state_space_model_dense,
        "isotropic": probdiffeq.state_space_model_isotropic,
        "blockdiag": probdiffeq.state_space_model_blockdiag,
    }[fact]()


@functools.lru_cache(maxsize=None)
def classes(fact):
    """(NormalCls, CondCls) of a factorisation, obtained through the public API."""
    prior = ssm(fact).prior_wiener_integrated([jnp.zeros((2,)), jnp.zeros((2,))])
    cond = prior.transition(dt=0.1, output_scale=prior.init.prototype_output_scale_calibrated())
    return type(prior.init), type(cond)


def std_template(fact, n, d):
    """Mean/std containers with n coefficients of dimension d."""
    mean = [jnp.zeros((d,)) for _ in range(n)]
    if fact == "isotropic":
        std = [jnp.zeros(()) for _ in range(n)]
    else:
        std = [jnp.zeros((d,)) for _ in range(n)]
    return mean, std


def make_normal(fact, n, d, mean_flat, chol_flat):
    Normal, _ = classes(fact)
    mean, std = std_template(fact, n, d)
    tmpl = Normal.from_mean_and_std(mean, std)
    return Normal(jnp.asarray(mean_flat, float), jnp.asarray(chol_flat, float), tmpl.tree_flatten)


def make_cond(fact, n_out, d, A, b, Lq, to_latent, to_observed):
    _, Cond = classes(fact)
    noise = make_normal(fact, n_out, d, b, Lq)
    return Cond(
        jnp.asarray(A, float),
        noise,
        jnp.asarray(to_latent, float),
        jnp.asarray(to_observed, float),
    )


# -------------------------------------------------- dense embeddings (numpy, d-agnostic)


def _blkdiag(blocks):
    blocks = [np.atleast_2d(b) for b in blocks]
    R = sum(b.shape[0] for b in blocks)
    C = sum(b.shape[1] for b in blocks)
    out = np.zeros((R, C))
    r = c = 0
    for b in blocks:
        out[r : r + b.shape[0], c : c + b.shape[1]] = b
        r += b.shape[0]
        c += b.shape[1]
    return out


def embed_vec(fact, v, d):
    v = np.asarray(v, float)
    return v.reshape(-1)  # dense: native; isotropic: (n,d) coeff-major; blockdiag: (d,n) d-major


def embed_diag(fact, s, d):
    s = np.asarray(s, float)
    if fact == "isotropic":
        return np.repeat(s, d)
    return s.reshape(-1)


def embed_mat(fact, M, d):
    M = np.asarray(M, float)
    if fact == "dense":
        return M
    if fact == "isotropic":
        return np.kron(M, np.eye(d))
    return _blkdiag(list(M))


def normal_to_dense(fact, rv, d):
    """(mean, cov) of a library Normal in the harness embedding."""
    m = embed_vec(fact, np.asarray(rv.mean_flat), d)
    L = embed_mat(fact, np.asarray(rv.cholesky_flat), d)
    return m, L @ L.T


def cond_to_dense(fact, cond, d):
    """(F, c, Q) with y|x ~ N(F x + c, Q) of a library conditional, harness embedding."""
    A = embed_mat(fact, np.asarray(cond.A), d)
    tl = embed_diag(fact, np.asarray(cond.to_latent), d)
    to = embed_diag(fact, np.asarray(cond.to_observed), d)
    b = embed_vec(fact, np.asarray(cond.noise.mean_flat), d)
    L = embed_mat(fact, np.asarray(cond.noise.cholesky_flat), d)
    F = to[:, None] * A * tl[None, :]
    c = to * b
    Lq = np.abs(to)[:, None] * L
    return F, c, Lq @ Lq.T


def perm_to_coeff_major(fact, n, d):
    """Index map from the harness embedding to coefficient-major (n,d) ordering."""
    if fact == "blockdiag":
        return np.arange(n * d).reshape(d, n).T.reshape(-1)
    return np.arange(n * d)


def tree_np(x):
    return jax.tree.map(np.asarray, x)
